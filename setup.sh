#!/bin/sh
# Run once after a fresh restore, offline: warms the Go build cache with the
# instrumented worker build (std + grpc + SDKs) so that checks start quickly.
set -e
cd /verif
./check build-only
