#!/bin/sh
# check_against.sh <repo-tree> <property> <tier>: run a check against another tree
# (seeded changes). Replays and evidence of such runs go to $VERIF_OUTDIR
# (default /tmp/vout.<tree name>), never into /verif/evidence.
T=$1; shift
: ${VERIF_OUTDIR:=/tmp/vout.$(basename $T)}
export VERIF_OUTDIR
VERIF_REPO=$T exec /verif/check "$@"
