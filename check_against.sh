#!/bin/sh
# check_against.sh <repo-tree> <property> <tier>: run a check against another tree (seeded changes)
T=$1; shift
VERIF_REPO=$T exec /verif/check "$@"
