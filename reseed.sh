#!/bin/bash
# reseed.sh <id> [checks...]: evaluate a stored seeded change again with the
# current machinery (after a check was strengthened). Applies
# seeded/<id>/patch.diff to a scratch worktree of /repo HEAD, runs the named
# quick checks (default: the change's own property) against it and records the
# outcome as "re_evaluated" in seeded/<id>/meta.json. The demonstration and the
# test-suite were confirmed by seed.sh when the change was stored.
set -u
ID=$1; shift
D=/verif/seeded/$ID
PROP=$(python3 -c 'import json,sys; print(json.load(open(sys.argv[1]))["property"])' $D/meta.json)
CHECKS=${*:-$PROP}
SV=/tmp/rs.$ID
git -C /repo worktree remove --force $SV >/dev/null 2>&1
git -C /repo worktree add -q --detach $SV HEAD || exit 3
(cd $SV && git apply $D/patch.diff) || { echo "PATCH DOES NOT APPLY"; git -C /repo worktree remove --force $SV; exit 3; }
cd /verif
for c in $CHECKS; do
  VERIF_OUTDIR=/tmp/vout.rs.$ID ./check_against.sh $SV $c quick > $D/recheck_$c.log 2>&1; rc=$?
  v=$(grep -c '^VIOLATION' $D/recheck_$c.log)
  cl=$(grep -o 'clause=[^ ]*' $D/recheck_$c.log | sort -u | tr '\n' ' ')
  echo "recheck $ID $c: exit $rc, $v violation lines, $cl"
  python3 - "$D/meta.json" "$c" "$rc" "$v" "$cl" "$(git -C /verif rev-parse --short HEAD)" <<'E'
import json,sys
p,c,rc,v,cl,head=sys.argv[1:7]
m=json.load(open(p))
m.setdefault("re_evaluated",[])
if isinstance(m["re_evaluated"],dict): m["re_evaluated"]=[m["re_evaluated"]]
m["re_evaluated"].append({"check":c,"tier":"quick","exit":int(rc),"violation_lines":int(v),"clauses":cl,"verif_parent_commit":head})
json.dump(m,open(p,"w"),indent=1)
E
  f=$(ls /tmp/vout.rs.$ID/replays/$c-*.json 2>/dev/null | head -1); [ -n "$f" ] && cp $f $D/caught_by_$c.replay.json
done
rm -rf /tmp/vout.rs.$ID
git -C /repo worktree remove --force $SV
