#!/bin/bash
# seed.sh <worktree> <id> <property> "<needs>" [checks...]
# Confirms a seeded property-breaking change written by a sub-agent (builds,
# demo fails with / passes without, existing tests pass with it), stores it as
# /verif/seeded/<id>/ and runs the given checks (default: the property's own)
# against a scratch worktree with the change applied.
set -u
WT=$1; ID=$2; PROP=$3; NEEDS=$4; shift 4
CHECKS=${*:-$PROP}
OUT=/verif/seeded/$ID
SV=/tmp/sv.$ID
mkdir -p $OUT
git -C $WT diff > $OUT/patch.diff
DEMOS=$(git -C $WT ls-files --others --exclude-standard | grep '_test.go$')
for d in $DEMOS; do mkdir -p $OUT/demo/$(dirname $d); cp $WT/$d $OUT/demo/$d; done
[ -f $WT/MUTATION.md ] && cp $WT/MUTATION.md $OUT/MUTATION.md
git -C /repo worktree remove --force $SV >/dev/null 2>&1
git -C /repo worktree add -q --detach $SV HEAD || exit 3
export GOFLAGS=-mod=mod
cd $SV
if ! git apply $OUT/patch.diff; then echo "PATCH DOES NOT APPLY to /repo HEAD"; APPLY=no; else APPLY=yes; fi
for d in $DEMOS; do mkdir -p $(dirname $d); cp $OUT/demo/$d $d; done
PKGS=$(for d in $DEMOS; do echo ./$(dirname $d)/; done | sort -u | tr '\n' ' ')
RUNPAT=$(grep -ho 'func Test[A-Za-z0-9_]*' $DEMOS | sed 's/func //' | paste -sd'|')
go build ./... || { echo "DOES NOT BUILD"; exit 3; }
go test -vet=off -count=1 -run "^($RUNPAT)\$" $PKGS > $OUT/demo_with.log 2>&1; WITH=$?
# (no git stash: the stash is shared between all worktrees of a repository)
git apply -R $OUT/patch.diff
go test -vet=off -count=1 -run "^($RUNPAT)\$" $PKGS > $OUT/demo_without.log 2>&1; WITHOUT=$?
git apply $OUT/patch.diff
for d in $DEMOS; do rm -f $d; done
go test -vet=off -count=1 ./cache/... ./server/... ./utils/... > $OUT/suite_with.log 2>&1; SUITE=$?
echo "demo with change: exit $WITH (want != 0); without: exit $WITHOUT (want 0); existing suite with change: exit $SUITE (want 0)"
RES=""
cd /verif
for c in $CHECKS; do
  VERIF_OUTDIR=/tmp/vout.$ID ./check_against.sh $SV $c quick > $OUT/check_$c.log 2>&1; rc=$?
  v=$(grep -c '^VIOLATION' $OUT/check_$c.log)
  cl=$(grep -o 'clause=[^ ]*' $OUT/check_$c.log | sort -u | tr '\n' ' ')
  echo "check $c: exit $rc, $v violation lines, $cl"
  RES="$RES{\"check\":\"$c\",\"exit\":$rc,\"violation_lines\":$v,\"clauses\":\"$cl\"},"
done
git -C /repo worktree remove --force $SV
cat > $OUT/meta.json <<EOM
{
 "id": "$ID",
 "property": "$PROP",
 "written_by": "independent sub-agent, given only the property text and a scratch worktree",
 "needs_to_manifest": $(python3 -c 'import json,sys; print(json.dumps(sys.argv[1]))' "$NEEDS"),
 "applies_to_repo_head": "$APPLY",
 "confirmed": {"demo_fails_with_change": $([ $WITH -ne 0 ] && echo true || echo false), "demo_passes_without": $([ $WITHOUT -eq 0 ] && echo true || echo false), "existing_suite_passes_with_change": $([ $SUITE -eq 0 ] && echo true || echo false)},
 "ran": "seed.sh: git apply patch.diff on a scratch worktree of /repo HEAD; go test -run <demo>; go test ./cache/... ./server/... ./utils/...; then ./check <Cxx> quick with VERIF_REPO=<worktree>",
 "checks": [${RES%,}]
}
EOM
# keep the first replay of each check as the record of the catch
for c in $CHECKS; do f=$(ls /tmp/vout.$ID/replays/$c-*.json 2>/dev/null | head -1); [ -n "$f" ] && cp $f $OUT/caught_by_$c.replay.json; done
rm -rf /tmp/vout.$ID
