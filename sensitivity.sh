#!/bin/bash
# sensitivity.sh: applies each deliberate breakage of sensitivity.tsv to a scratch worktree of /repo HEAD and runs
# the named check against it; prints one line per breakage. (Self-test of the machinery, DESIGN.md 3.10.)
cd /verif
grep -v '^#' sensitivity.tsv | while IFS=$'\t' read -r prop budget file expr what; do
  [ -z "$prop" ] && continue
  M=/tmp/senswt
  git -C /repo worktree remove --force $M >/dev/null 2>&1
  git -C /repo worktree add -q --detach $M HEAD || exit 3
  sed -i -e "$expr" $M/$file
  if git -C $M diff --quiet; then echo "$prop | NOT-APPLIED | $what"; git -C /repo worktree remove --force $M; continue; fi
  if ! (cd $M && GOFLAGS=-mod=mod go build ./... 2>/dev/null); then echo "$prop | DOES-NOT-BUILD | $what"; git -C /repo worktree remove --force $M; continue; fi
  out=$(VERIF_OUTDIR=/tmp/vout.sens VERIF_REPO=$M VERIF_BUDGET_S=$budget ./check $prop quick 2>&1); rc=$?
  cl=$(echo "$out" | grep -o 'clause=[^ ]*' | sort -u | head -3 | tr '\n' ' ')
  echo "$prop | exit=$rc | $cl| $what"
  git -C /repo worktree remove --force $M
done
rm -rf /tmp/vout.sens
