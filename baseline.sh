#!/bin/sh
# Runs the repository's own test suite exactly as BASELINE.json does (no build
# tag or hook is involved: the simulator's instrumentation is a build-time
# overlay used only by /verif's own worker build).
cd /repo && go test -mod=mod -json -vet=off -count=1 -timeout 25m ./...
