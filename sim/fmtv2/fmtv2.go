// Package fmtv2 is an independent reader and writer of bazel-remote's cas.v2
// blob file format, written from the format description (the header comment
// of the casblob package) and sharing no code with it. The simulator uses it to
// judge files the server wrote and to produce files the server must read.
//
// Layout (all integers little endian):
//
//	u32  magic      0x184D2A50 (a zstd skippable frame)
//	u32  frameSize  number of header bytes that follow this field
//	i64  logical (uncompressed) size, > 0
//	u8   compression 0 = identity, 1 = zstd
//	u32  chunkSize  logical bytes per chunk
//	i64  numOffsets = number of chunks + 1
//	i64  offsets[numOffsets]  file offset of every chunk, then the file size
//	...  chunk data: identity = the raw bytes in one chunk; zstd = one
//	     independent zstd frame per chunk of chunkSize logical bytes (the
//	     last one may be shorter)
package fmtv2

import (
	"bytes"
	"encoding/binary"
	"errors"
	"fmt"

	"github.com/klauspost/compress/zstd"
	"github.com/valyala/gozstd"
)

const Magic = 0x184D2A50

const fixedHeader = 4 + 4 + 8 + 1 + 4 + 8

type Header struct {
	LogicalSize int64
	Compression uint8
	ChunkSize   uint32
	Offsets     []int64
}

var dec *zstd.Decoder

func decoder() *zstd.Decoder {
	if dec == nil {
		dec, _ = zstd.NewReader(nil, zstd.WithDecoderConcurrency(1))
	}
	return dec
}

// Parse validates the header of a complete file image.
func Parse(file []byte) (*Header, error) {
	if len(file) < fixedHeader+16 {
		return nil, fmt.Errorf("file too short for a header: %d bytes", len(file))
	}
	le := binary.LittleEndian
	if m := le.Uint32(file[0:]); m != Magic {
		return nil, fmt.Errorf("bad magic %#x", m)
	}
	frame := int64(le.Uint32(file[4:]))
	h := &Header{
		LogicalSize: int64(le.Uint64(file[8:])),
		Compression: file[16],
		ChunkSize:   le.Uint32(file[17:]),
	}
	n := int64(le.Uint64(file[21:]))
	if h.LogicalSize <= 0 {
		return nil, fmt.Errorf("logical size %d", h.LogicalSize)
	}
	if n < 2 || n > int64(len(file)) {
		return nil, fmt.Errorf("number of offsets %d", n)
	}
	if frame != 8+1+4+8+n*8 {
		return nil, fmt.Errorf("frame size %d does not match %d offsets", frame, n)
	}
	if int64(len(file)) < fixedHeader+n*8 {
		return nil, errors.New("offset table truncated")
	}
	h.Offsets = make([]int64, n)
	for i := range h.Offsets {
		h.Offsets[i] = int64(le.Uint64(file[fixedHeader+8*i:]))
	}
	if h.Offsets[0] != fixedHeader+n*8 {
		return nil, fmt.Errorf("first chunk offset %d, header ends at %d", h.Offsets[0], fixedHeader+n*8)
	}
	for i := 1; i < len(h.Offsets); i++ {
		if h.Offsets[i] <= h.Offsets[i-1] {
			return nil, fmt.Errorf("offsets not strictly increasing at %d", i)
		}
	}
	if h.Offsets[n-1] != int64(len(file)) {
		return nil, fmt.Errorf("last offset %d != file size %d", h.Offsets[n-1], len(file))
	}
	if h.Compression > 1 {
		return nil, fmt.Errorf("compression type %d", h.Compression)
	}
	if h.ChunkSize == 0 {
		return nil, errors.New("chunk size 0")
	}
	chunks := n - 1
	if h.Compression == 0 {
		if chunks != 1 {
			return nil, fmt.Errorf("identity blob with %d chunks", chunks)
		}
	} else {
		want := (h.LogicalSize + int64(h.ChunkSize) - 1) / int64(h.ChunkSize)
		if chunks != want {
			return nil, fmt.Errorf("%d chunks for logical size %d and chunk size %d, want %d", chunks, h.LogicalSize, h.ChunkSize, want)
		}
	}
	return h, nil
}

// Decode validates the whole file and returns the logical content. Each zstd
// chunk must be an independently decodable frame of exactly the chunk's
// logical length, judged by two decoders (klauspost and libzstd).
func Decode(file []byte) ([]byte, *Header, error) {
	h, err := Parse(file)
	if err != nil {
		return nil, nil, err
	}
	if h.Compression == 0 {
		data := file[h.Offsets[0]:]
		if int64(len(data)) != h.LogicalSize {
			return nil, h, fmt.Errorf("identity payload %d bytes, logical size %d", len(data), h.LogicalSize)
		}
		return data, h, nil
	}
	out := make([]byte, 0, h.LogicalSize)
	left := h.LogicalSize
	for i := 0; i+1 < len(h.Offsets); i++ {
		c := file[h.Offsets[i]:h.Offsets[i+1]]
		want := int64(h.ChunkSize)
		if left < want {
			want = left
		}
		a, err := decoder().DecodeAll(c, nil)
		if err != nil {
			return nil, h, fmt.Errorf("chunk %d: %w", i, err)
		}
		b, err := gozstd.Decompress(nil, c)
		if err != nil {
			return nil, h, fmt.Errorf("chunk %d (libzstd): %w", i, err)
		}
		if !bytes.Equal(a, b) {
			return nil, h, fmt.Errorf("chunk %d: decoders disagree", i)
		}
		if int64(len(a)) != want {
			return nil, h, fmt.Errorf("chunk %d decodes to %d bytes, want %d", i, len(a), want)
		}
		out = append(out, a...)
		left -= want
	}
	return out, h, nil
}

type WriteOpts struct {
	ChunkSize uint32
	Identity  bool
	Level     int  // klauspost encoder level 1..4
	LibZstd   bool // use libzstd (cgo) instead of klauspost
	LibLevel  int
}

// Encode produces a conformant file image for data.
func Encode(data []byte, o WriteOpts) []byte {
	if len(data) == 0 {
		panic("fmtv2: empty blobs are never stored")
	}
	if o.ChunkSize == 0 {
		o.ChunkSize = 1 << 20
	}
	var chunks [][]byte
	if o.Identity {
		chunks = [][]byte{data}
	} else {
		var enc *zstd.Encoder
		if !o.LibZstd {
			lvl := zstd.EncoderLevel(o.Level)
			if lvl < zstd.SpeedFastest || lvl > zstd.SpeedBestCompression {
				lvl = zstd.SpeedDefault
			}
			enc, _ = zstd.NewWriter(nil, zstd.WithEncoderConcurrency(1), zstd.WithEncoderLevel(lvl))
		}
		for off := 0; off < len(data); off += int(o.ChunkSize) {
			end := off + int(o.ChunkSize)
			if end > len(data) {
				end = len(data)
			}
			if o.LibZstd {
				chunks = append(chunks, gozstd.CompressLevel(nil, data[off:end], o.LibLevel))
			} else {
				chunks = append(chunks, enc.EncodeAll(data[off:end], nil))
			}
		}
		if enc != nil {
			enc.Close()
		}
	}
	n := len(chunks) + 1
	hdr := fixedHeader + 8*n
	var b bytes.Buffer
	le := binary.LittleEndian
	w := func(v any) { _ = binary.Write(&b, le, v) }
	w(uint32(Magic))
	w(uint32(8 + 1 + 4 + 8 + 8*n))
	w(int64(len(data)))
	if o.Identity {
		w(uint8(0))
	} else {
		w(uint8(1))
	}
	w(o.ChunkSize)
	w(int64(n))
	off := int64(hdr)
	for _, c := range chunks {
		w(off)
		off += int64(len(c))
	}
	w(off)
	for _, c := range chunks {
		b.Write(c)
	}
	return b.Bytes()
}

// DecodeZstdStream decodes a zstd stream (possibly several frames, possibly
// starting with skippable frames) with both decoders and requires agreement.
func DecodeZstdStream(z []byte) ([]byte, error) {
	a, err := decoder().DecodeAll(z, nil)
	if err != nil {
		return nil, fmt.Errorf("klauspost: %w", err)
	}
	b, err := gozstd.Decompress(nil, z)
	if err != nil {
		return nil, fmt.Errorf("libzstd: %w", err)
	}
	if !bytes.Equal(a, b) {
		return nil, errors.New("decoders disagree")
	}
	return a, nil
}
