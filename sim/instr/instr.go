// Package instr produces, at check time, an instrumented copy of the
// bazel-remote packages the simulator needs to schedule, plus a go build
// -overlay file that maps the originals in /repo onto the copies. /repo itself
// is never written.
package instr

import (
	"bytes"
	"encoding/json"
	"fmt"
	"go/ast"
	"go/format"
	"go/parser"
	"go/token"
	"os"
	"path/filepath"
	"sort"
	"strconv"
	"strings"
)

const hookImport = "github.com/buchgr/bazel-remote/v2/utils/simhook"

// pkgRules says which rewrite rules apply to which package directory
// (relative to the repo root).
type pkgRules struct {
	dir      string
	locks    bool     // R1/R2 on X.mu.Lock/Unlock
	calls    []string // R3 selector calls "pkg.Func" or ".Method"
	lruGuard bool     // R4 on SizedLRU methods
	selects  bool     // R5: receive-only selects become scheduler decisions
	files    []string // restrict to these files (nil: all)
	sends    bool     // R6: yield before every channel send
	selects2 bool     // R5b: two-case receive selects with := bindings
	heldChan []string // R8: in these files every channel operation is a scheduling point that also exists while the cache mutex is held
}

var rules = []pkgRules{
	{dir: "cache/disk", locks: true, lruGuard: true, selects: true,
		// lru.go: the eviction queue is handed between mutex holders
		// (appendEvictionToQueue) and the remover, which works without the mutex
		heldChan: []string{"lru.go"},
		// (.Done / req.onProxyMiss: the hand-over between a backend lookup
		// worker, the wait-group waiter and the requesting goroutine)
		calls: []string{"os.Open", "os.OpenFile", "os.Remove", "os.Rename", "tfc.Create", ".Sync", "io.Copy", ".Done", "req.onProxyMiss"}},
	{dir: "cache/disk/casblob", locks: false,
		calls: []string{"binary.Write", ".Sync", "f.Write", "io.Copy"}},
	{dir: "utils/tempfile", locks: false,
		calls: []string{"os.OpenFile"}},
	// Handlers that run helper goroutines connected by an io.Pipe and result
	// channels: the order of sends and pipe closes across those goroutines,
	// and which of two ready results the handler sees first, are scheduling
	// decisions (R6, R5b).
	{dir: "server", files: []string{"grpc_bytestream.go", "grpc_cas.go"}, sends: true, selects2: true,
		calls: []string{"pw.Close", "pw.CloseWithError", "pr.Close", "pr.CloseWithError"}},
}

var lruMethods = map[string]bool{
	"Add": true, "Get": true, "RemoveKey": true, "RemoveElement": true, "removeElement": true,
	"Reserve": true, "Unreserve": true, "Len": true, "TotalSize": true, "UncompressedSize": true,
	"ReservedSize": true, "appendEvictionToQueue": true, "calcTotalDiskSizeAndUpdatePeak": true,
}

// Shim is a virtual file added to the build.
type Shim struct {
	RelPath string // path below the repo root
	Src     string // file below shimDir
}

var Shims = []Shim{
	{"utils/simhook/simhook.go", "simhook.go.txt"},
	{"cache/disk/zz_verif_export.go", "disk_export.go.txt"},
	{"server/zz_verif_export.go", "server_export.go.txt"},
	{"cache/grpcproxy/zz_verif_export.go", "grpcproxy_export.go.txt"},
	{"cache/s3proxy/zz_verif_export.go", "s3proxy_export.go.txt"},
	{"cache/azblobproxy/zz_verif_export.go", "azblobproxy_export.go.txt"},
}

type Stats struct {
	Files  int
	Points map[string]int // rule -> count
}

// Generate instruments repo into outDir and writes outDir/overlay.json.
func Generate(repo, shimDir, outDir string) (string, *Stats, error) {
	st := &Stats{Points: map[string]int{}}
	replace := map[string]string{}
	if err := os.MkdirAll(outDir, 0o755); err != nil {
		return "", nil, err
	}
	for _, r := range rules {
		dir := filepath.Join(repo, r.dir)
		ents, err := os.ReadDir(dir)
		if err != nil {
			return "", nil, err
		}
		for _, e := range ents {
			n := e.Name()
			if e.IsDir() || !strings.HasSuffix(n, ".go") || strings.HasSuffix(n, "_test.go") {
				continue
			}
			if r.files != nil {
				want := false
				for _, f := range r.files {
					want = want || f == n
				}
				if !want {
					continue
				}
			}
			src := filepath.Join(dir, n)
			out, changed, err := instrumentFile(src, r, st)
			if err != nil {
				return "", nil, fmt.Errorf("%s: %w", src, err)
			}
			if !changed {
				continue
			}
			dst := filepath.Join(outDir, strings.ReplaceAll(r.dir, "/", "_")+"__"+n)
			if err := os.WriteFile(dst, out, 0o644); err != nil {
				return "", nil, err
			}
			replace[src] = dst
			st.Files++
		}
	}
	for _, s := range Shims {
		b, err := os.ReadFile(filepath.Join(shimDir, s.Src))
		if err != nil {
			return "", nil, err
		}
		dst := filepath.Join(outDir, "shim__"+strings.ReplaceAll(s.RelPath, "/", "_"))
		if err := os.WriteFile(dst, b, 0o644); err != nil {
			return "", nil, err
		}
		replace[filepath.Join(repo, s.RelPath)] = dst
	}
	ov := struct{ Replace map[string]string }{replace}
	b, _ := json.MarshalIndent(ov, "", " ")
	p := filepath.Join(outDir, "overlay.json")
	if err := os.WriteFile(p, b, 0o644); err != nil {
		return "", nil, err
	}
	return p, st, nil
}

type rewriter struct {
	r       pkgRules
	file    string
	fn      string
	ord     map[string]int
	st      *Stats
	changed bool
}

func (w *rewriter) point(rule string) string {
	k := w.fn + ":" + rule
	n := w.ord[k]
	w.ord[k] = n + 1
	w.st.Points[rule]++
	w.changed = true
	return fmt.Sprintf("%s:%s:%s.%d", w.file, w.fn, rule, n)
}

func hookCall(name string, args ...ast.Expr) ast.Stmt {
	return &ast.ExprStmt{X: &ast.CallExpr{
		Fun:  &ast.SelectorExpr{X: ast.NewIdent("simhook"), Sel: ast.NewIdent(name)},
		Args: args,
	}}
}

func strLit(s string) ast.Expr {
	return &ast.BasicLit{Kind: token.STRING, Value: strconv.Quote(s)}
}

func intLit(i int) ast.Expr {
	if i < 0 {
		return &ast.UnaryExpr{Op: token.SUB, X: &ast.BasicLit{Kind: token.INT, Value: strconv.Itoa(-i)}}
	}
	return &ast.BasicLit{Kind: token.INT, Value: strconv.Itoa(i)}
}

// isMuCall reports whether e is X.mu.<method>().
func isMuCall(e ast.Expr, method string) bool {
	c, ok := e.(*ast.CallExpr)
	if !ok || len(c.Args) != 0 {
		return false
	}
	s, ok := c.Fun.(*ast.SelectorExpr)
	if !ok || s.Sel.Name != method {
		return false
	}
	in, ok := s.X.(*ast.SelectorExpr)
	return ok && in.Sel.Name == "mu"
}

// matchCall returns the matched rule name and the first argument if it is a
// plain identifier.
func (w *rewriter) matchCall(c *ast.CallExpr) (string, ast.Expr, bool) {
	s, ok := c.Fun.(*ast.SelectorExpr)
	if !ok {
		return "", nil, false
	}
	recv := ""
	if id, ok := s.X.(*ast.Ident); ok {
		recv = id.Name
	}
	for _, pat := range w.r.calls {
		hit := false
		if strings.HasPrefix(pat, ".") {
			hit = s.Sel.Name == pat[1:] && len(c.Args) == 0
		} else {
			hit = recv+"."+s.Sel.Name == pat
		}
		if hit {
			var arg ast.Expr
			if len(c.Args) > 0 {
				if id, ok := c.Args[0].(*ast.Ident); ok && id.Name != "nil" {
					arg = ast.NewIdent(id.Name)
				}
			}
			return strings.TrimPrefix(pat, "."), arg, true
		}
	}
	return "", nil, false
}

// shallowCalls collects R3 calls that are evaluated as part of stmt itself,
// not inside nested blocks or function literals.
func (w *rewriter) shallowCalls(stmt ast.Stmt) []*ast.CallExpr {
	var out []*ast.CallExpr
	var exprs []ast.Node
	switch s := stmt.(type) {
	case *ast.ExprStmt:
		exprs = append(exprs, s.X)
	case *ast.AssignStmt:
		for _, e := range s.Rhs {
			exprs = append(exprs, e)
		}
	case *ast.ReturnStmt:
		for _, e := range s.Results {
			exprs = append(exprs, e)
		}
	case *ast.DeclStmt:
		exprs = append(exprs, s.Decl)
	case *ast.IfStmt:
		for cur := s; cur != nil; {
			if cur.Init != nil {
				exprs = append(exprs, cur.Init)
			}
			exprs = append(exprs, cur.Cond)
			next, _ := cur.Else.(*ast.IfStmt)
			cur = next
		}
	case *ast.SwitchStmt:
		if s.Init != nil {
			exprs = append(exprs, s.Init)
		}
		if s.Tag != nil {
			exprs = append(exprs, s.Tag)
		}
	}
	for _, e := range exprs {
		ast.Inspect(e, func(n ast.Node) bool {
			switch x := n.(type) {
			case *ast.FuncLit:
				return false
			case *ast.CallExpr:
				if _, _, ok := w.matchCall(x); ok {
					out = append(out, x)
				}
			}
			return true
		})
	}
	return out
}

func (w *rewriter) rewriteList(list []ast.Stmt) []ast.Stmt {
	out := make([]ast.Stmt, 0, len(list)+4)
	for _, stmt := range list {
		w.rewriteNested(stmt)
		if w.r.selects {
			if sw := w.rewriteSelect(stmt); sw != nil {
				out = append(out, hookCall("Yield", strLit(w.point("R5"))))
				out = append(out, sw)
				continue
			}
		}
		if w.r.selects2 {
			if sw := w.rewriteSelect2(stmt); sw != nil {
				out = append(out, hookCall("Yield", strLit(w.point("R5"))))
				out = append(out, sw)
				continue
			}
		}
		if w.heldChan() {
			if isChanOpStmt(stmt) {
				out = append(out, hookCall("YieldHeld", strLit(w.point("R8"))))
				out = append(out, stmt)
				continue
			}
		}
		if w.r.sends {
			if _, ok := stmt.(*ast.SendStmt); ok {
				out = append(out, hookCall("Yield", strLit(w.point("R6/send"))))
				out = append(out, stmt)
				continue
			}
		}
		if w.r.locks {
			if es, ok := stmt.(*ast.ExprStmt); ok {
				if isMuCall(es.X, "Lock") {
					out = append(out, hookCall("Yield", strLit(w.point("R1"))))
					out = append(out, stmt)
					out = append(out, hookCall("Held", intLit(1)))
					continue
				}
				if isMuCall(es.X, "Unlock") {
					out = append(out, hookCall("Held", intLit(-1)))
					out = append(out, stmt)
					out = append(out, hookCall("Yield", strLit(w.point("R2"))))
					continue
				}
			}
			if ds, ok := stmt.(*ast.DeferStmt); ok && isMuCall(ds.Call, "Unlock") {
				w.point("R2d")
				body := &ast.BlockStmt{List: []ast.Stmt{
					hookCall("Held", intLit(-1)),
					&ast.ExprStmt{X: ds.Call},
				}}
				out = append(out, &ast.DeferStmt{Call: &ast.CallExpr{
					Fun: &ast.FuncLit{Type: &ast.FuncType{Params: &ast.FieldList{}}, Body: body},
				}})
				continue
			}
		}
		for _, c := range w.shallowCalls(stmt) {
			name, arg, _ := w.matchCall(c)
			args := []ast.Expr{strLit(w.point("R3/" + name))}
			if arg != nil {
				args = append(args, arg)
			}
			out = append(out, hookCall("Yield", args...))
		}
		out = append(out, stmt)
	}
	return out
}

func (w *rewriter) heldChan() bool {
	for _, f := range w.r.heldChan {
		if f == w.file {
			return true
		}
	}
	return false
}

// isChanOpStmt: a send, a select, or a statement whose own expression is a
// channel receive (`<-c`, `x := <-c`, `x, ok = <-c`).
func isChanOpStmt(stmt ast.Stmt) bool {
	isRecv := func(e ast.Expr) bool {
		u, ok := e.(*ast.UnaryExpr)
		return ok && u.Op == token.ARROW
	}
	switch s := stmt.(type) {
	case *ast.SendStmt, *ast.SelectStmt:
		return true
	case *ast.ExprStmt:
		return isRecv(s.X)
	case *ast.AssignStmt:
		return len(s.Rhs) == 1 && isRecv(s.Rhs[0])
	}
	return false
}

// rewriteSelect turns `select { case <-a: A  case <-b: B }` (receive-only, no
// bindings, no default, at least two cases) into
// `switch simhook.SelectRecv(pt, a, b) { case 0: A  case 1: B }`.
func (w *rewriter) rewriteSelect(stmt ast.Stmt) ast.Stmt {
	sel, ok := stmt.(*ast.SelectStmt)
	if !ok || len(sel.Body.List) < 2 {
		return nil
	}
	var chans []ast.Expr
	for _, c := range sel.Body.List {
		cc := c.(*ast.CommClause)
		es, ok := cc.Comm.(*ast.ExprStmt)
		if !ok {
			return nil // default, send, or a receive with bindings
		}
		u, ok := es.X.(*ast.UnaryExpr)
		if !ok || u.Op != token.ARROW {
			return nil
		}
		chans = append(chans, u.X)
	}
	args := append([]ast.Expr{strLit(w.point("R5s"))}, chans...)
	sw := &ast.SwitchStmt{
		Tag:  &ast.CallExpr{Fun: &ast.SelectorExpr{X: ast.NewIdent("simhook"), Sel: ast.NewIdent("SelectRecv")}, Args: args},
		Body: &ast.BlockStmt{},
	}
	for i, c := range sel.Body.List {
		cc := c.(*ast.CommClause)
		sw.Body.List = append(sw.Body.List, &ast.CaseClause{List: []ast.Expr{intLit(i)}, Body: cc.Body})
	}
	return sw
}

// rewriteSelect2 turns a two-case select whose cases are receives with :=
// bindings (or none), without default, into
//
//	switch __i, __v0, __ok0, __v1, __ok1 := simhook.SelectRecv2(pt, a, b); __i {
//	case 0: _, _, _, _ = __v0, __ok0, __v1, __ok1; x, ok := __v0, __ok0; A
//	case 1: ...
//	}
func (w *rewriter) rewriteSelect2(stmt ast.Stmt) ast.Stmt {
	sel, ok := stmt.(*ast.SelectStmt)
	if !ok || len(sel.Body.List) != 2 {
		return nil
	}
	var chans []ast.Expr
	var binds [][]ast.Expr
	anyBind := false
	for _, c := range sel.Body.List {
		cc := c.(*ast.CommClause)
		switch cs := cc.Comm.(type) {
		case *ast.ExprStmt:
			u, ok := cs.X.(*ast.UnaryExpr)
			if !ok || u.Op != token.ARROW {
				return nil
			}
			chans = append(chans, u.X)
			binds = append(binds, nil)
		case *ast.AssignStmt:
			if cs.Tok != token.DEFINE || len(cs.Rhs) != 1 || len(cs.Lhs) > 2 {
				return nil
			}
			u, ok := cs.Rhs[0].(*ast.UnaryExpr)
			if !ok || u.Op != token.ARROW {
				return nil
			}
			chans = append(chans, u.X)
			binds = append(binds, cs.Lhs)
			anyBind = true
		default:
			return nil // default or send
		}
	}
	if !anyBind {
		return nil
	}
	id := ast.NewIdent
	tmp := []ast.Expr{id("__i"), id("__v0"), id("__ok0"), id("__v1"), id("__ok1")}
	args := append([]ast.Expr{strLit(w.point("R5b"))}, chans...)
	sw := &ast.SwitchStmt{
		Init: &ast.AssignStmt{Lhs: tmp, Tok: token.DEFINE, Rhs: []ast.Expr{
			&ast.CallExpr{Fun: &ast.SelectorExpr{X: id("simhook"), Sel: id("SelectRecv2")}, Args: args}}},
		Tag:  id("__i"),
		Body: &ast.BlockStmt{},
	}
	for i, c := range sel.Body.List {
		cc := c.(*ast.CommClause)
		body := []ast.Stmt{&ast.AssignStmt{
			Lhs: []ast.Expr{id("_"), id("_"), id("_"), id("_")}, Tok: token.ASSIGN,
			Rhs: []ast.Expr{id("__v0"), id("__ok0"), id("__v1"), id("__ok1")}}}
		if b := binds[i]; b != nil {
			rhs := []ast.Expr{id(fmt.Sprintf("__v%d", i))}
			if len(b) == 2 {
				rhs = append(rhs, id(fmt.Sprintf("__ok%d", i)))
			}
			body = append(body, &ast.AssignStmt{Lhs: b, Tok: token.DEFINE, Rhs: rhs})
		}
		sw.Body.List = append(sw.Body.List, &ast.CaseClause{List: []ast.Expr{intLit(i)}, Body: append(body, cc.Body...)})
	}
	return sw
}

// rewriteNested descends into the blocks contained in stmt.
func (w *rewriter) rewriteNested(stmt ast.Stmt) {
	switch s := stmt.(type) {
	case *ast.BlockStmt:
		s.List = w.rewriteList(s.List)
	case *ast.IfStmt:
		s.Body.List = w.rewriteList(s.Body.List)
		if s.Else != nil {
			w.rewriteNested(s.Else)
		}
	case *ast.ForStmt:
		s.Body.List = w.rewriteList(s.Body.List)
	case *ast.RangeStmt:
		s.Body.List = w.rewriteList(s.Body.List)
		// `for req := range c.containsQueue`: a pool of identical workers;
		// the worker is labelled by the item it took (R7)
		if sel, ok := s.X.(*ast.SelectorExpr); ok && sel.Sel.Name == "containsQueue" && w.r.locks {
			if id, ok := s.Key.(*ast.Ident); ok {
				hash := &ast.SelectorExpr{X: &ast.ParenExpr{X: &ast.StarExpr{X: &ast.SelectorExpr{X: ast.NewIdent(id.Name), Sel: ast.NewIdent("digest")}}}, Sel: ast.NewIdent("Hash")}
				alias := hookCall("Alias", &ast.BinaryExpr{X: strLit("cw:"), Op: token.ADD, Y: hash})
				// ... and having taken the item is a scheduling point: the
				// request's context may be cancelled before the worker looks at it
				taken := hookCall("Yield", strLit(w.point("R7")))
				s.Body.List = append([]ast.Stmt{alias, taken}, s.Body.List...)
			}
		}
	case *ast.SwitchStmt:
		w.rewriteNested(s.Body)
	case *ast.TypeSwitchStmt:
		w.rewriteNested(s.Body)
	case *ast.SelectStmt:
		w.rewriteNested(s.Body)
		if w.heldChan() {
			// the chosen case's body (and a default body in particular) starts
			// with a scheduling point: what the select observed may change
			// before the body acts on it
			for _, c := range s.Body.List {
				cc := c.(*ast.CommClause)
				cc.Body = append([]ast.Stmt{hookCall("YieldHeld", strLit(w.point("R8c")))}, cc.Body...)
			}
		}
	case *ast.CaseClause:
		s.Body = w.rewriteList(s.Body)
	case *ast.CommClause:
		s.Body = w.rewriteList(s.Body)
	case *ast.LabeledStmt:
		w.rewriteNested(s.Stmt)
	}
	// Function literals anywhere inside this statement's own expressions
	// (go func(){...}(), defer func(){...}(), x := func(){...}).
	w.funcLits(stmt)
}

func (w *rewriter) funcLits(stmt ast.Stmt) {
	var roots []ast.Node
	switch s := stmt.(type) {
	case *ast.ExprStmt:
		roots = append(roots, s.X)
	case *ast.AssignStmt:
		for _, e := range s.Rhs {
			roots = append(roots, e)
		}
	case *ast.GoStmt:
		roots = append(roots, s.Call)
	case *ast.DeferStmt:
		roots = append(roots, s.Call)
	case *ast.ReturnStmt:
		for _, e := range s.Results {
			roots = append(roots, e)
		}
	case *ast.DeclStmt:
		roots = append(roots, s.Decl)
	case *ast.IfStmt:
		if s.Init != nil {
			roots = append(roots, s.Init)
		}
		roots = append(roots, s.Cond)
	}
	for _, r := range roots {
		ast.Inspect(r, func(n ast.Node) bool {
			if fl, ok := n.(*ast.FuncLit); ok {
				fl.Body.List = w.rewriteList(fl.Body.List)
				return false
			}
			return true
		})
	}
}

func instrumentFile(path string, r pkgRules, st *Stats) ([]byte, bool, error) {
	fset := token.NewFileSet()
	f, err := parser.ParseFile(fset, path, nil, parser.ParseComments)
	if err != nil {
		return nil, false, err
	}
	w := &rewriter{r: r, file: filepath.Base(path), ord: map[string]int{}, st: st}
	for _, d := range f.Decls {
		fd, ok := d.(*ast.FuncDecl)
		if !ok || fd.Body == nil {
			continue
		}
		w.fn = fd.Name.Name
		fd.Body.List = w.rewriteList(fd.Body.List)
		if r.lruGuard && fd.Recv != nil && len(fd.Recv.List) == 1 && lruMethods[fd.Name.Name] {
			if se, ok := fd.Recv.List[0].Type.(*ast.StarExpr); ok {
				if id, ok := se.X.(*ast.Ident); ok && id.Name == "SizedLRU" {
					guard := hookCall("AssertHeld", strLit(w.point("R4")))
					fd.Body.List = append([]ast.Stmt{guard}, fd.Body.List...)
				}
			}
		}
	}
	if !w.changed {
		return nil, false, nil
	}
	// Comments are dropped from the instrumented copy: with statements
	// inserted that have no position, go/printer may otherwise misplace them.
	// Keep only the leading comment groups (build constraints, package doc).
	var keep []*ast.CommentGroup
	for _, cg := range f.Comments {
		if cg.End() < f.Package {
			keep = append(keep, cg)
		}
	}
	f.Comments = keep
	imp := &ast.GenDecl{Tok: token.IMPORT, Specs: []ast.Spec{
		&ast.ImportSpec{Name: ast.NewIdent("simhook"), Path: &ast.BasicLit{Kind: token.STRING, Value: strconv.Quote(hookImport)}},
	}}
	// Insert after the last existing import declaration.
	idx := 0
	for i, d := range f.Decls {
		if gd, ok := d.(*ast.GenDecl); ok && gd.Tok == token.IMPORT {
			idx = i + 1
		}
	}
	f.Decls = append(f.Decls[:idx], append([]ast.Decl{imp}, f.Decls[idx:]...)...)
	var buf bytes.Buffer
	if err := format.Node(&buf, fset, f); err != nil {
		return nil, false, err
	}
	return buf.Bytes(), true, nil
}

// Summary renders the statistics deterministically.
func (s *Stats) Summary() string {
	ks := make([]string, 0, len(s.Points))
	for k := range s.Points {
		ks = append(ks, k)
	}
	sort.Strings(ks)
	var b strings.Builder
	fmt.Fprintf(&b, "files=%d", s.Files)
	for _, k := range ks {
		fmt.Fprintf(&b, " %s=%d", k, s.Points[k])
	}
	return b.String()
}
