// The simulation worker. It is a compiled test binary only because
// testing/synctest needs a *testing.T; it is not a unit test. The driver
// (cmd/vcheck) starts it with a job file and reads its results.
package worker

import (
	"bufio"
	"encoding/json"
	"fmt"
	"os"
	"runtime"
	"runtime/debug"
	"strconv"
	"testing"
	"testing/synctest"
	"time"

	"verifsim/scen"
	"verifsim/sim"
	"verifsim/world"
)

func TestWorker(t *testing.T) {
	job := os.Getenv("VERIF_JOB")
	out := os.Getenv("VERIF_OUT")
	scratch := os.Getenv("VERIF_RUNDIR")
	if job == "" || out == "" || scratch == "" {
		t.Skip("not started by the driver")
	}
	// One bubble per process, GC off (pooled zstd codecs carry finalizers that
	// would touch bubbled channels from outside the bubble): see DESIGN.md §3.1.
	debug.SetGCPercent(-1)
	var jobs []scen.Params
	f, err := os.Open(job)
	if err != nil {
		t.Fatal(err)
	}
	sc := bufio.NewScanner(f)
	sc.Buffer(make([]byte, 1<<20), 64<<20)
	for sc.Scan() {
		var p scen.Params
		if err := json.Unmarshal(sc.Bytes(), &p); err != nil {
			t.Fatal(err)
		}
		jobs = append(jobs, p)
	}
	f.Close()
	of, err := os.Create(out)
	if err != nil {
		t.Fatal(err)
	}
	defer of.Close()
	w := bufio.NewWriter(of)
	heapCap := uint64(1200 << 20)
	world.InstallHooks()
	go stallWatchdog()
	func() {
		defer func() {
			// the end-of-bubble "deadlock: blocked goroutines remain" panic is
			// expected (permanent background goroutines of the cache instances)
			_ = recover()
		}()
		synctest.Test(t, func(t *testing.T) {
			for i, p := range jobs {
				sim.Progress.Add(1)
				res := scen.Run(p, scratch)
				sim.Progress.Add(1)
				b, _ := json.Marshal(res)
				w.Write(b)
				w.WriteByte('\n')
				w.Flush()
				var ms runtime.MemStats
				runtime.ReadMemStats(&ms)
				if ms.HeapAlloc > heapCap && i+1 < len(jobs) {
					fmt.Fprintf(w, "{\"unfinished_from\":%d}\n", i+1)
					w.Flush()
					break
				}
			}
			w.Flush()
			of.Close()
			os.Exit(0)
		})
	}()
}

// stallWatchdog runs outside the bubble on real time. It decides nothing about
// a run; it only turns "the scheduler has not come round for VERIF_STALL_S
// seconds" (a goroutine of the code under test blocked for ever on a real
// mutex, e.g. after a handler panicked while holding it) into a prompt exit
// with a goroutine dump, which the driver classifies.
func stallWatchdog() {
	limit := 90
	if v, err := strconv.Atoi(os.Getenv("VERIF_STALL_S")); err == nil && v > 0 {
		limit = v
	}
	last, since := sim.Progress.Load(), time.Now()
	for {
		time.Sleep(2 * time.Second)
		if p := sim.Progress.Load(); p != last {
			last, since = p, time.Now()
			continue
		}
		if time.Since(since) > time.Duration(limit)*time.Second {
			buf := make([]byte, 4<<20)
			n := runtime.Stack(buf, true)
			fmt.Fprintf(os.Stderr, "verif: stalled: no scheduler progress for %d s of real time\n\n%s\n", limit, buf[:n])
			os.Exit(4)
		}
	}
}
