package scen

import (
	"bytes"
	"fmt"
	"os"
	"path/filepath"
	"sort"
	"time"

	"verifsim/fmtv2"
	"verifsim/sim"
	"verifsim/world"

	"github.com/buchgr/bazel-remote/v2/cache"
)

// restartdir — scenario family S4 (C09, C20 "reads-foreign"): a directory is
// produced by an independent writer (current layout, legacy flat and two-level
// layouts, raw .v1 and cas.v2 entries mixed, duplicates, lost+found), every
// file gets a distinct access time from the simulated file clock, and an
// instance is started on it with a max_size above/at/below the total.
func init() { Register("restartdir", restartDirScen) }

type genFile struct {
	rel    string // path relative to the cache dir as generated
	key    string // "<ks>/<hash>"
	data   []byte // logical content
	onDisk int64
	v2     bool // cas.v2 blob (header + chunks)
	atime  int  // rank, 0 = oldest
	final  string
}

const sufAlphabet = "abcdefghijklmnopqrstuvwxyzABCDEFGHIJKLMNOPQRSTUVWXYZ0189"

func drawSuffix(r sim.Rand) string {
	n := 3 + r.Intn(8)
	b := make([]byte, n)
	for i := range b {
		b[i] = sufAlphabet[r.Intn(len(sufAlphabet))]
	}
	return string(b)
}

func restartDirScen(c *Ctx) {
	r, s := c.R, c.S
	dir := c.Dir("f")
	nFiles := r.Intn(25)
	if r.Chance(1, 4) {
		nFiles = 25 + r.Intn(36)
	}
	var files []*genFile
	used := map[string]bool{}
	sizes := []int64{100, 1, 4096, 4097, 9000, 3000, 70000, 1<<20 + 1, 2<<20 + 17}
	mk := func(i int) {
		ks := []string{"cas", "ac", "raw"}[r.Weighted(5, 2, 1)]
		var b *world.Blob
		dupOf := -1
		if len(files) > 0 && r.Chance(1, 6) {
			dupOf = r.Intn(len(files))
			ks = files[dupOf].key[:len(files[dupOf].key)-65]
		}
		sz := sizes[r.Weighted(5, 2, 2, 2, 3, 3, 2, 1, 1)]
		b = world.Make(world.BlobID{Kind: r.Intn(4), Seed: 7000 + i, Size: sz})
		hash := b.Hash
		if ks != "cas" {
			hash = world.HashOf([]byte(fmt.Sprintf("key-%d", i)))
		}
		if dupOf >= 0 {
			hash = files[dupOf].key[len(ks)+1:]
			if ks == "cas" {
				b = &world.Blob{Data: files[dupOf].data, Hash: hash}
			}
		}
		f := &genFile{key: ks + "/" + hash, data: b.Data}
		layout := r.Weighted(6, 1, 1) // current, flat v0, two-level v1
		// (flat raw/ directories are part of the property's "legacy flat ... raw/
		// layouts"; they were left out until seeded change C09d)
		var content []byte
		switch {
		case layout == 0 && ks == "cas" && r.Chance(2, 3):
			o := fmtv2.WriteOpts{ChunkSize: []uint32{1 << 20, 4096, 65536, 4 << 20, 12345, 1 << 17}[r.Intn(6)], Level: 1 + r.Intn(4)}
			if r.Chance(1, 3) {
				o.LibZstd, o.LibLevel = true, []int{1, 3, 9, 19}[r.Intn(4)]
			}
			if r.Chance(1, 8) {
				o.Identity = true
			}
			content = fmtv2.Encode(b.Data, o)
			f.v2 = true
			f.rel = fmt.Sprintf("cas.v2/%s/%s-%d-%s", hash[:2], hash, len(b.Data), drawSuffix(r))
		case layout == 0 && ks == "cas":
			content = b.Data
			f.rel = fmt.Sprintf("cas.v2/%s/%s-%s.v1", hash[:2], hash, drawSuffix(r))
		case layout == 0:
			content = b.Data
			f.rel = fmt.Sprintf("%s.v2/%s/%s-%s", ks, hash[:2], hash, drawSuffix(r))
		case layout == 1:
			content = b.Data
			f.rel = fmt.Sprintf("%s/%s", ks, hash)
		default:
			content = b.Data
			f.rel = fmt.Sprintf("%s/%s/%s", ks, hash[:2], hash)
		}
		if used[f.rel] {
			return
		}
		used[f.rel] = true
		f.onDisk = int64(len(content))
		p := filepath.Join(dir, f.rel)
		_ = os.MkdirAll(filepath.Dir(p), 0o755)
		if err := os.WriteFile(p, content, 0o644); err != nil {
			panic(err)
		}
		files = append(files, f)
	}
	for i := 0; i < nFiles; i++ {
		mk(i)
	}
	// decoration the file system or old releases leave behind
	if r.Chance(1, 3) {
		_ = os.MkdirAll(filepath.Join(dir, "lost+found"), 0o755)
	}
	if r.Chance(1, 3) {
		_ = os.MkdirAll(filepath.Join(dir, "cas.v2", "lost+found"), 0o755)
	}
	if r.Chance(1, 3) {
		_ = os.MkdirAll(filepath.Join(dir, "ac.v2", "3f", "lost+found"), 0o755)
	}
	if r.Chance(1, 4) {
		if _, err := os.Stat(filepath.Join(dir, "cas")); err == nil {
			_ = os.MkdirAll(filepath.Join(dir, "cas", "ab"), 0o755)
			_ = os.WriteFile(filepath.Join(dir, "cas", "ab", ".DS_Store"), []byte("x"), 0o644)
		}
	}
	// simulated file clock: a random permutation gives the access-time ranks
	perm := make([]int, len(files))
	for i := range perm {
		perm[i] = i
	}
	for i := len(perm) - 1; i > 0; i-- {
		j := r.Intn(i + 1)
		perm[i], perm[j] = perm[j], perm[i]
	}
	base := time.Date(2021, 3, 1, 0, 0, 0, 0, time.UTC)
	for rank, idx := range perm {
		files[idx].atime = rank
		t := base.Add(time.Duration(rank) * time.Hour)
		_ = os.Chtimes(filepath.Join(dir, files[idx].rel), t, t)
	}
	byAtime := append([]*genFile(nil), files...)
	sort.Slice(byAtime, func(i, j int) bool { return byAtime[i].atime < byAtime[j].atime })

	// reference: collapse duplicates to the newest, total size
	newest := map[string]*genFile{}
	for _, f := range byAtime {
		newest[f.key] = f
	}
	var total, largest int64
	for _, f := range newest {
		total += world.R4k(f.onDisk)
		if world.R4k(f.onDisk) > largest {
			largest = world.R4k(f.onDisk)
		}
	}
	cfg := drawCfg(r, false)
	mode := r.Weighted(4, 2, 3, 1)
	switch mode {
	case 0:
		cfg.MaxSize = total + 4096*int64(1+r.Intn(50))
	case 1:
		cfg.MaxSize = total
	case 2:
		cfg.MaxSize = total / int64(2+r.Intn(3)) &^ 4095
	case 3:
		cfg.MaxSize = largest - 4096
	}
	if cfg.MaxSize < 4096 {
		cfg.MaxSize = 4096
	}
	c.Logf("cfg %+v files=%d keys=%d total=%d largest=%d sizing=%d", cfg, len(files), len(newest), total, largest, mode)
	// the version of a key that counts is its newest file that is not, on its
	// own, larger than max_size (such files are removed individually)
	newest = map[string]*genFile{}
	for _, f := range byAtime {
		if world.R4k(f.onDisk) <= cfg.MaxSize {
			newest[f.key] = f
		}
	}
	for _, f := range byAtime {
		c.Logf("atime#%d %s (%d bytes on disk, v2=%v)", f.atime, world.NormPath("/"+f.rel), f.onDisk, f.v2)
	}
	c.Cell("sizing=%d|dups=%v|legacy=%v|%s", mode, len(newest) < len(files), hasLegacy(files), cfg.Storage)

	// replay model: insert oldest first into an LRU of max_size with
	// overwrite semantics; files individually larger than max_size are dropped
	type ent struct {
		f *genFile
	}
	var kept []*genFile // oldest first
	var sum int64
	for _, f := range byAtime {
		sz := world.R4k(f.onDisk)
		if sz > cfg.MaxSize {
			continue
		}
		for i, k := range kept {
			if k.key == f.key {
				sum -= world.R4k(k.onDisk)
				kept = append(kept[:i:i], kept[i+1:]...)
				break
			}
		}
		kept = append(kept, f)
		sum += sz
		for sum > cfg.MaxSize && len(kept) > 0 {
			sum -= world.R4k(kept[0].onDisk)
			kept = kept[1:]
		}
	}
	simKeys := map[string]bool{}
	for _, k := range kept {
		simKeys[k.key] = true
	}

	var n *world.Node
	s.StepHook = func(s *sim.Sim) {
		if n != nil && n.Cache != nil {
			world.StepInvariants(s, n, "")
		}
	}
	if r.Chance(1, 3) {
		s.Policy.StarveRemover = true
	}
	n = c.Start("g0:", dir, cfg, nil)
	if n.Err != nil {
		s.Violate("C09.starts", "start-up", "start-up on a generated bazel-remote directory failed: %v", n.Err)
		return
	}
	s.Policy = sim.Policy{}
	s.Drain()
	o := world.Observe(n)
	present := map[string]bool{}
	for _, e := range o.Index {
		present[e.Key] = true
	}
	// C09.order: evicted entries are older than every survivor
	oldestSurvivor := 1 << 30
	for k := range present {
		if f := newest[k]; f != nil && f.atime < oldestSurvivor {
			oldestSurvivor = f.atime
		}
		if newest[k] == nil {
			s.Violate("C09.kept", "index", "index holds %s which is not in the directory", short(k))
		}
	}
	for k, f := range newest {
		if present[k] {
			continue
		}
		if world.R4k(f.onDisk) > cfg.MaxSize {
			continue // single file larger than max_size
		}
		if f.atime > oldestSurvivor {
			s.Violate("C09.order", k[:3], "entry with access-time rank %d was evicted at start-up while an entry with older rank %d survived", f.atime, oldestSurvivor)
		}
		if simKeys[k] {
			s.Violate("C09.kept", k[:3], "entry %s (rank %d, %d bytes) fits within max_size %d according to oldest-first replay but is absent after start-up", short(k), f.atime, f.onDisk, cfg.MaxSize)
		}
	}
	if total <= cfg.MaxSize && len(newest) == len(files) {
		for k := range newest {
			if !present[k] {
				s.Violate("C09.kept", k[:3], "directory fits max_size (%d <= %d) but %s is absent after start-up", total, cfg.MaxSize, short(k))
			}
		}
	}
	if o.Cnt.CurrentSize > cfg.MaxSize {
		s.Violate("C03.cap", "start-up", "accounted %d > max_size %d after start-up", o.Cnt.CurrentSize, cfg.MaxSize)
	}
	world.Quiescence(s, n, world.QuiescenceOpts{})
	brokenIndex := s.Failed() // the read-back below is still judged (C20); the later-order phase is not
	// C09.later-order: later uploads evict the survivors in access-time order
	// (done before anything reads the entries, in half of the runs).
	if r.Chance(1, 2) && len(present) > 0 && !brokenIndex {
		surv := make([]string, 0, len(present))
		for k := range present {
			surv = append(surv, k)
		}
		sort.Slice(surv, func(i, j int) bool { return newest[surv[i]].atime < newest[surv[j]].atime })
		model := &lruModel{}
		for _, k := range surv {
			model.use(k)
		}
		s.Go("g0:p", func() {
			cl := world.NewClient(s, n)
			for i := 0; i < 1+r.Intn(4); i++ {
				b := world.Make(world.BlobID{Kind: 0, Seed: 7900 + i, Size: []int64{4096, 9000, 70000}[r.Intn(3)]})
				if b.Size() > cfg.MaxSize {
					continue
				}
				before := world.Observe(n)
				sizeOf := map[string]int64{}
				for _, e := range before.Index {
					sizeOf[e.Key] = world.R4k(e.SizeOnDisk)
				}
				res := cl.DiskPut(cache.CAS, b.Hash, b.Size(), bytes.NewReader(b.Data))
				after := world.Observe(n)
				in := map[string]bool{}
				for _, e := range after.Index {
					in[e.Key] = true
				}
				ev := map[string]bool{}
				for _, e := range before.Index {
					if !in[e.Key] && e.Key != "cas/"+b.Hash {
						ev[e.Key] = true
					}
				}
				var d int64
				if e := after.Find("cas/" + b.Hash); e != nil {
					d = world.R4k(e.SizeOnDisk)
				}
				need := b.Size()
				if d > need {
					need = d
				}
				nv := len(s.Violations)
				checkOrder(s, model, ev, "cas/"+b.Hash, "later-put", sizeOf, before.Cnt.CurrentSize+need-cfg.MaxSize)
				for j := nv; j < len(s.Violations); j++ {
					s.Violations[j].Clause = "C09.later-order"
				}
				for k := range ev {
					model.remove(k)
					delete(present, k)
				}
				if res.OK && in["cas/"+b.Hash] {
					model.use("cas/" + b.Hash)
				}
			}
		})
		c.RunTasks("C14.returns")
		c.CheckPanics("g0:p")
		s.Drain()
		world.Quiescence(s, n, world.QuiescenceOpts{})
		if s.Panicked {
			return
		}
		// (no early exit on a directory/index violation: what the entries read
		// back as is judged in any case, it is what C20 is about)
	}
	// C09.kept / C20.reads-foreign: same key, same bytes, same size on read paths
	var keys []string
	for k := range present {
		keys = append(keys, k)
	}
	sort.Strings(keys)
	s.Go("g0:r", func() {
		cl := world.NewClient(s, n)
		for _, k := range keys {
			f := newest[k]
			if f == nil {
				continue
			}
			ks, hash := k[:len(k)-65], k[len(k)-64:]
			nn := int64(len(f.data))
			clause := "C09.kept"
			if f.v2 {
				clause = "C20.reads-foreign"
			}
			chk := func(path string, res world.Res, off int64) {
				if !(res.OK && res.Found) {
					s.Violate(clause, ks+"/"+path, "entry %s (written by the independent writer, v2=%v) is not served via %s at offset %d: %s %s", short(k), f.v2, path, off, res, res.Err)
				} else if !bytes.Equal(res.Data, f.data[off:]) {
					s.Violate(clause, ks+"/"+path, "entry %s read via %s at offset %d returned %d bytes that differ from the stored content (%d bytes)", short(k), path, off, len(res.Data), nn-off)
				} else if res.Size >= 0 && res.Size != nn && path != "http.GET+zstd" {
					s.Violate(clause, ks+"/"+path, "entry %s via %s reports size %d, stored %d", short(k), path, res.Size, nn)
				}
			}
			if ks != "cas" {
				kind := cache.AC
				if ks == "raw" {
					kind = cache.RAW
				}
				chk("disk.Get(-1)", cl.DiskGet(kind, hash, -1, 0, false, world.FullRead), 0)
				continue
			}
			switch r.Intn(3) {
			case 0:
				chk("http.GET", cl.HTTPGet("/cas/"+hash, false, world.FullRead), 0)
				chk("disk.GetZstd", cl.DiskGet(cache.CAS, hash, nn, 0, true, world.FullRead), 0)
			case 1:
				off := drawOffset(r, nn)
				if off >= nn {
					off = nn - 1
				}
				chk("ByteStream.Read", cl.BSRead(world.ReadName("", hash, nn, false), off, 0, false, world.FullRead), off)
				chk("http.GET+zstd", cl.HTTPGet("/cas/"+hash, true, world.FullRead), 0)
			default:
				off := drawOffset(r, nn)
				if off >= nn {
					off = nn - 1
				}
				chk("ByteStream.Read+zstd", cl.BSRead(world.ReadName("", hash, nn, true), off, 0, true, world.FullRead), off)
				chk("disk.Get(-1)", cl.DiskGet(cache.CAS, hash, -1, off, false, world.FullRead), off)
			}
		}
	})
	c.RunTasks("C14.returns")
	c.CheckPanics("g0:r")
	if s.Failed() {
		return
	}
}

func hasLegacy(fs []*genFile) bool {
	for _, f := range fs {
		if len(f.rel) > 3 && (f.rel[:4] == "cas/" || f.rel[:3] == "ac/" || f.rel[:4] == "raw/") {
			return true
		}
	}
	return false
}
