package scen

import (
	"bytes"
	"fmt"
	"strings"

	"verifsim/fmtv2"
	"verifsim/sim"
	"verifsim/world"

	"github.com/buchgr/bazel-remote/v2/cache"

	pb "github.com/buchgr/bazel-remote/v2/genproto/build/bazel/remote/execution/v2"
)

// backend — scenario family S5 (C12, proxy halves of C10/C18/C20): a front-end
// instance with a proxy backend. b1 = the real httpproxy over a simulated
// http.RoundTripper and object store; b0 = a harness cache.Proxy directly on
// the interface. Every operation may carry one planned backend fault.
func init() { Register("backend", backendScen) }

type bKey struct {
	kind    cache.EntryKind
	hash    string
	data    []byte // the one value of this key (CAS: the blob; AC/RAW: its value)
	inStore bool   // seeded in the backend
}

func (k *bKey) name() string { return k.kind.String() + "/" + k.hash }

var getFaultsB1 = []string{"", "err", "404", "404body", "500", "500big", "cut", "nocl"}
var getFaultsB0 = []string{"", "err", "404", "cut", "short", "size-unknown", "size+1", "size-1"}

func backendScen(c *Ctx) {
	r, s := c.R, c.S
	cfg := drawCfg(r, false)
	if r.Chance(1, 3) {
		cfg.MaxProxyBlob = []int64{4096, 65536, 1<<20 + 1, 100}[r.Intn(4)]
	}
	b1 := c.Opt("kind", "") == "b1" || (c.Opt("kind", "") == "" && r.Chance(2, 3))
	v2 := cfg.Storage == "zstd"
	st := world.NewStore(s, v2)
	var proxy cache.Proxy
	queue := []int{100, 1, 4}[r.Intn(3)]
	if b1 {
		p, err := world.NewHTTPProxy(st, cfg.Storage, 1, queue)
		if err != nil {
			panic(err)
		}
		proxy = p
	} else {
		proxy = &world.DirectProxy{St: st}
	}
	bk := map[bool]string{true: "b1-httpproxy", false: "b0-direct"}[b1]
	c.Logf("cfg %+v backend=%s queue=%d", cfg, bk, queue)
	var n *world.Node
	s.StepHook = func(s *sim.Sim) {
		if n != nil && n.Cache != nil {
			world.StepInvariants(s, n, "")
		}
	}
	n = c.Start("g0:", c.Dir("f"), cfg, proxy)
	if n.Err != nil {
		s.Violate("C09.starts", "g0:", "start-up failed: %v", n.Err)
		return
	}
	maxProxy := cfg.MaxProxyBlob
	if maxProxy == 0 {
		maxProxy = world.MaxInt64
	}
	// universe
	var keys []*bKey
	nb := 3 + r.Intn(4)
	for i := 0; i < nb; i++ {
		sz := []int64{3000, 100, 4096, 4097, 70000, 1<<20 + 1, 1, 2<<20 + 17}[r.Weighted(4, 3, 2, 2, 2, 1, 1, 1)]
		b := world.Make(world.BlobID{Kind: r.Intn(4), Seed: 8000 + i, Size: sz})
		keys = append(keys, &bKey{kind: cache.CAS, hash: b.Hash, data: b.Data})
	}
	for i := 0; i < 2; i++ {
		v := world.Make(world.BlobID{Kind: 0, Seed: 8100 + i, Size: []int64{200, 5000}[r.Intn(2)]})
		kind := cache.AC
		if i == 1 {
			kind = cache.RAW
		}
		keys = append(keys, &bKey{kind: kind, hash: world.HashOf([]byte(fmt.Sprintf("bk-ac-%d", i))), data: v.Data})
	}
	encode := func(k *bKey) []byte {
		if k.kind == cache.CAS && v2 {
			return fmtv2.Encode(k.data, fmtv2.WriteOpts{ChunkSize: []uint32{1 << 20, 65536, 4096}[r.Intn(3)], Level: 1 + r.Intn(3)})
		}
		return k.data
	}
	for _, k := range keys {
		if r.Chance(1, 2) {
			k.inStore = true
			st.Objects[world.ObjectName(k.kind, k.hash, v2)] = encode(k)
			c.Logf("seed backend %s (%d bytes logical)", short(k.name()), len(k.data))
		}
	}
	expectedNames := map[string]bool{}
	for _, k := range keys {
		expectedNames[world.ObjectName(k.kind, k.hash, v2)] = true
	}
	type bop struct {
		kind  int // 0 get, 1 contains, 2 findmissing, 3 put, 4 toggle-down
		k     *bKey
		via   int
		known bool
		fault *world.BFault
		multi []*bKey
		off   int64 // read offset (CAS reads through the disk API and ByteStream.Read)
	}
	nOps := 6 + r.Intn(14)
	var ops []bop
	faultful := c.Opt("faults", "1") == "1"
	readsOnly := c.Opt("reads", "") == "1" // C02: mostly reads, many at offsets
	for i := 0; i < nOps; i++ {
		o := bop{kind: r.Weighted(6, 2, 2, 3, 1, 2), k: keys[r.Intn(len(keys))]}
		if readsOnly && r.Chance(3, 4) {
			o.kind = 0
		}
		o.known = r.Chance(2, 3)
		switch o.kind {
		case 0:
			o.via = r.Intn(4)
			if o.k.kind != cache.CAS {
				o.via = 0
				o.known = false
			} else if o.via != 1 && (r.Chance(1, 3) || (readsOnly && r.Chance(1, 2))) {
				// a read from an offset: also the first read of an entry only the backend holds
				nn := int64(len(o.k.data))
				o.off = []int64{1, nn / 2, nn - 1, 4096, 4097}[r.Intn(5)]
				if o.off >= nn || o.off < 0 {
					o.off = 0 // (a read at offset n is refused; C02 covers offset n on local entries)
				}
			}
			if faultful && r.Chance(1, 2) {
				fl := getFaultsB1
				if !b1 {
					fl = getFaultsB0
				}
				f := fl[r.Intn(len(fl))]
				if f != "" {
					objLen := len(o.k.data) + 60
					at := []int{0, 8, 15, 16, 30, 45, 46, objLen / 2, objLen - 1, 4096}[r.Intn(10)]
					o.fault = &world.BFault{Method: "GET", Kind: f, At: at}
				}
			}
		case 1:
			if faultful && r.Chance(1, 3) {
				o.fault = &world.BFault{Method: "HEAD", Kind: []string{"err", "404", "500"}[r.Intn(3)]}
				if !b1 {
					o.fault.Kind = []string{"err", "404", "size-unknown"}[r.Intn(3)]
				}
			}
		case 2, 5:
			m := 1 + r.Intn(4)
			for j := 0; j < m; j++ {
				k := keys[r.Intn(nb)]
				o.multi = append(o.multi, k)
			}
		case 3:
			if faultful && b1 && r.Chance(1, 3) {
				o.fault = &world.BFault{Method: []string{"HEAD", "PUT", "PUT"}[r.Intn(3)], Kind: []string{"err", "500", "lost"}[r.Intn(3)]}
				if o.fault.Method == "HEAD" {
					o.fault.Kind = "err"
				}
			}
		}
		ops = append(ops, o)
		fd := ""
		if o.fault != nil {
			fd = fmt.Sprintf(" fault=%s:%s@%d", o.fault.Method, o.fault.Kind, o.fault.At)
		}
		c.Logf("%d: op%d %s via=%d known=%v%s", i, o.kind, short(o.k.name()), o.via, o.known, fd)
	}
	uploaded := map[string]bool{} // names of accepted uploads (write-through expected)
	accepted := map[string]int{}  // accepted uploads per name
	// In half of the runs every upload is allowed to reach the backend before
	// the next operation starts (exact write-through expectations); in the
	// other half the uploader overlaps with later operations and faults.
	syncUploads := r.Chance(1, 2)
	s.Go("g0:c0", func() {
		cl := world.NewClient(s, n)
		localHas := func(k *bKey) bool {
			e := world.Observe(n).Find(k.name())
			return e != nil && e.Size == int64(len(k.data))
		}
		readAt := func(k *bKey, via int, known bool, off int64) (world.Res, string) {
			nn := int64(len(k.data))
			sz := int64(-1)
			if known {
				sz = nn
			}
			at := ""
			if off > 0 {
				at = "@offset"
			}
			switch {
			case k.kind != cache.CAS:
				return cl.DiskGet(k.kind, k.hash, -1, 0, false, world.FullRead), "disk.Get/" + k.kind.String()
			case via == 0:
				return cl.DiskGet(cache.CAS, k.hash, sz, off, false, world.FullRead), fmt.Sprintf("disk.Get(known=%v)%s", known, at)
			case via == 1:
				return cl.HTTPGet("/cas/"+k.hash, false, world.FullRead), "http.GET"
			case via == 2:
				return cl.BSRead(world.ReadName("", k.hash, nn, false), off, 0, false, world.FullRead), "ByteStream.Read" + at
			default:
				return cl.DiskGet(cache.CAS, k.hash, sz, off, true, world.FullRead), fmt.Sprintf("disk.GetZstd(known=%v)%s", known, at)
			}
		}
		read := func(k *bKey, via int, known bool) (world.Res, string) { return readAt(k, via, known, 0) }
		for i, o := range ops {
			st.Disarm()
			if o.fault != nil {
				st.Arm(o.fault)
			}
			k := o.k
			name := world.ObjectName(k.kind, k.hash, v2)
			nn := int64(len(k.data))
			switch o.kind {
			case 0:
				local := localHas(k)
				_, inBackend := st.Objects[name]
				getsBefore := st.GetReqs[name]
				res, path := readAt(k, o.via, o.known, o.off)
				s.Settle()
				fired := o.fault != nil && o.fault.Fired
				site := bk + "/" + path
				want := k.data
				if o.off > 0 && k.kind == cache.CAS && o.via != 1 {
					want = k.data[o.off:]
				}
				s.Note("%d get %s %s -> %s found=%v n=%d fired=%v", i, short(k.name()), path, res.Code, res.Found, len(res.Data), fired)
				c.Cell("%s|%s|%s|fault=%v", bk, cfg.Storage, path, faultName(o.fault, fired))
				if res.Found && res.OK {
					if !bytes.Equal(res.Data, want) {
						s.Violate("C12.no-wrong-hit", site, "hit for %s returned %d bytes that are not its content from offset %d (%d bytes) [fault %s]", short(k.name()), len(res.Data), o.off, len(want), faultName(o.fault, fired))
						if o.off > 0 && !fired {
							s.Violate("C02.exact", site, "read of %s at offset %d returned %d bytes, not bytes [%d,%d)", short(k.name()), o.off, len(res.Data), o.off, nn)
						}
					} else if res.Size >= 0 && res.Size != nn && !strings.HasPrefix(path, "http.GET") {
						s.Violate("C12.no-wrong-hit", site, "hit for %s reports size %d, content has %d bytes", short(k.name()), res.Size, nn)
					}
				} else if res.Found && len(res.Data) > 0 && !strings.Contains(path, "Zstd") && !bytes.HasPrefix(want, res.Data) {
					s.Violate("C12.no-wrong-hit", site, "bytes delivered before an error are not a prefix of the content")
				}
				hit := res.Found && res.OK
				switch {
				case fired || st.Down:
					// any of {miss, error, exact hit} is fine; poison is judged below
				case local:
					if !hit {
						s.Violate("C12.read-through", site, "locally present entry %s not served: %s %s", short(k.name()), res.Code, res.Err)
					}
				case inBackend && nn <= maxProxy:
					if !hit {
						s.Violate("C12.read-through", site, "entry %s held by the backend (fault-free) was not served: %s %s", short(k.name()), res.Code, res.Err)
					} else if !localHas(k) {
						s.Violate("C12.read-through", site, "entry %s was served from the backend but is not cached locally afterwards", short(k.name()))
					}
				case inBackend:
					if hit {
						s.Violate("C18.proxy", site, "object of %d bytes served from the backend with max_proxy_blob_size %d", nn, maxProxy)
					}
					if localHas(k) {
						s.Violate("C18.proxy", site, "object of %d bytes cached from the backend with max_proxy_blob_size %d", nn, maxProxy)
					}
				default:
					if res.Found || (res.Code != "NotFound") {
						s.Violate("C12.degrade", site, "entry %s is nowhere but the answer is not a plain miss: %s %s", short(k.name()), res.Code, res.Err)
					}
				}
				if !hit && !res.Found && res.Code != "NotFound" && !fired && !st.Down {
					s.Probe("error_without_fault")
				}
				_ = getsBefore
				// no-poison: whatever is indexed now must be complete and right
				if e := world.Observe(n).Find(k.name()); e != nil {
					was := st.Down
					st.Down = true
					again, p2 := read(k, 0, true)
					st.Down = was
					if !(again.Found && again.OK && bytes.Equal(again.Data, k.data)) {
						s.Violate("C12.no-poison", bk+"/"+k.kind.String(), "after a backend read [fault %s] the local entry %s (size %d) does not serve the content via %s: %s %s", faultName(o.fault, fired), short(k.name()), e.Size, p2, again, again.Err)
					}
				}
			case 1:
				sz := int64(-1)
				if o.known {
					sz = nn
				}
				local := localHas(k)
				_, inBackend := st.Objects[name]
				res := cl.DiskContains(k.kind, k.hash, sz)
				fired := o.fault != nil && o.fault.Fired
				site := bk + "/disk.Contains"
				s.Note("%d contains %s -> %v size=%d", i, short(k.name()), res.Found, res.Size)
				switch {
				case fired || st.Down:
					if res.Found && !local && !inBackend {
						s.Violate("C12.no-wrong-hit", site, "absent entry reported present")
					}
				case local:
					if !res.Found {
						s.Violate("C12.read-through", site, "local entry not reported present")
					}
				case inBackend && (nn <= maxProxy):
					if !res.Found {
						s.Violate("C12.read-through", site, "entry %s held by the backend is not reported present", short(k.name()))
					}
				case inBackend && sz >= 0:
					if res.Found {
						s.Violate("C18.proxy", site, "object of %d bytes reported present on the backend's word with max_proxy_blob_size %d", nn, maxProxy)
					}
				case !inBackend:
					if res.Found {
						s.Violate("C12.no-wrong-hit", site, "absent entry %s reported present", short(k.name()))
					}
				}
				if res.Found && res.Size >= 0 && res.Size != nn {
					s.Violate("C12.no-wrong-hit", site, "entry %s reported present with size %d, it has %d bytes", short(k.name()), res.Size, nn)
				}
			case 2:
				var ds []*pb.Digest
				type exp struct{ present, judge bool }
				var want []exp
				for _, m := range o.multi {
					ds = append(ds, world.Digest(m.hash, int64(len(m.data))))
					_, inB := st.Objects[world.ObjectName(m.kind, m.hash, v2)]
					loc := localHas(m)
					want = append(want, exp{present: loc || (inB && int64(len(m.data)) <= maxProxy && !st.Down), judge: true})
				}
				res, missing := cl.FindMissing(ds)
				if !res.OK {
					s.Violate("C12.degrade", bk+"/FindMissingBlobs", "FindMissingBlobs failed: %s %s", res.Code, res.Err)
					break
				}
				var wantMissing []string
				for j, m := range o.multi {
					if !want[j].present {
						wantMissing = append(wantMissing, m.hash)
					}
				}
				var got []string
				for _, d := range missing {
					got = append(got, d.Hash)
				}
				if strings.Join(got, ",") != strings.Join(wantMissing, ",") {
					s.Violate("C10.exact", bk+"/FindMissingBlobs", "FindMissingBlobs with a backend answered %v, expected %v (request order, duplicates kept)", shorts(got), shorts(wantMissing))
				}
			case 3:
				// a new upload of this key's value (AC/RAW keys: same value again)
				var res world.Res
				if r.Chance(1, 2) || k.kind != cache.CAS {
					res = cl.DiskPut(k.kind, k.hash, nn, world.NewParkReader(s, k.data, world.DrawCuts(r, len(k.data)), -1))
				} else {
					res, _ = cl.HTTP(world.HTTPReq{Method: "PUT", Path: "/cas/" + k.hash, CLen: nn, Body: world.NewParkReader(s, k.data, nil, -1), FailAt: -1, ParkAt: -1})
				}
				s.Note("%d put %s -> %s", i, short(k.name()), res.Code)
				if !res.OK {
					s.Violate("C01.accept", bk+"/put", "well-formed upload refused: %s %s", res.Code, res.Err)
				} else if o.fault == nil && !st.Down && syncUploads {
					uploaded[name] = true
				}
				if res.OK {
					accepted[name]++
				}
				if syncUploads {
					s.Settle()
				}
			case 4:
				st.Down = !st.Down
				s.Fault("backend.down-toggle")
			case 5:
				// C06 with a backend: an ActionResult whose output files live
				// locally, only in the backend, or nowhere
				ar := &pb.ActionResult{ExitCode: int32(i + 1)}
				allThere := true
				why := ""
				for j, m := range o.multi {
					ar.OutputFiles = append(ar.OutputFiles, &pb.OutputFile{Path: fmt.Sprintf("o/%d", j), Digest: world.Digest(m.hash, int64(len(m.data)))})
					_, inB := st.Objects[world.ObjectName(m.kind, m.hash, v2)]
					if !(localHas(m) || (inB && int64(len(m.data)) <= maxProxy && !st.Down)) {
						allThere = false
						why = short(m.hash) + " is neither local nor in the backend"
					}
				}
				arKey := world.HashOf([]byte(fmt.Sprintf("bk-ar-%d", i)))
				expectedNames[world.ObjectName(cache.AC, arKey, v2)] = true
				if res, _ := cl.UpdateAR("", arKey, ar); !res.OK {
					s.Violate("C11.accept", bk+"/UpdateActionResult", "valid ActionResult refused: %s %s", res.Code, res.Err)
					break
				}
				s.Settle()
				gr, got := cl.GetAR("", arKey, world.InlineReq{})
				s.Settle()
				hit := gr.OK && got != nil
				s.Note("%d getAR %d refs allThere=%v -> %s", i, len(o.multi), allThere, gr.Code)
				if hit && !allThere {
					s.Violate("C06.hit-iff", bk+"/GetActionResult", "answered a hit although %s", why)
				}
				if !hit && allThere && gr.Code != "NotFound" {
					s.Probe("getAR_error_" + gr.Code)
				}
				if !hit && allThere && !st.Down && gr.Code == "NotFound" {
					s.Violate("C06.hit-iff", bk+"/GetActionResult", "every referenced blob is present locally or in the backend but the answer is a miss")
				}
			}
			c.Res.Ops++
			if s.Failed() {
				return
			}
		}
	})
	c.RunTasks("C12.degrade")
	c.CheckPanics("g0:c0")
	st.Down = false
	st.Disarm()
	if s.Drain() != sim.Quiesced {
		s.Violate("C12.degrade", "drain", "background work (uploads) did not drain")
		return
	}
	if s.Failed() {
		return
	}
	// write-through: accepted uploads reached the backend once, in a form a
	// peer decodes to the identical blob
	byName := map[string]*bKey{}
	for _, k := range keys {
		byName[world.ObjectName(k.kind, k.hash, v2)] = k
	}
	for _, nm := range sortedStr(uploaded) {
		k := byName[nm]
		obj, ok := st.Objects[nm]
		if !ok {
			if k.inStore {
				continue
			}
			s.Violate("C12.write-through", bk+"/"+k.kind.String(), "accepted upload %s never reached the backend (queue %d, no fault)", short(k.name()), queue)
			continue
		}
		if st.Puts[nm] > accepted[nm] {
			s.Violate("C12.write-through", bk+"/"+k.kind.String(), "%d accepted uploads of %s were handed to the backend %d times", accepted[nm], short(k.name()), st.Puts[nm])
		}
		var got []byte
		if k.kind == cache.CAS && v2 {
			d, h, err := fmtv2.Decode(obj)
			if err != nil {
				s.Violate("C12.write-through", bk+"/cas", "object %s received by the backend does not parse as cas.v2: %v", shortN(nm), err)
				continue
			}
			if h.LogicalSize != int64(len(k.data)) {
				s.Violate("C12.write-through", bk+"/cas", "object %s header states %d logical bytes, blob has %d", shortN(nm), h.LogicalSize, len(k.data))
			}
			got = d
		} else {
			got = obj
		}
		if !bytes.Equal(got, k.data) {
			s.Violate("C12.write-through", bk+"/"+k.kind.String(), "object %s received by the backend decodes to %d bytes that differ from the uploaded %d", shortN(nm), len(got), len(k.data))
		}
	}
	// C20.names: only the fixed names were ever requested
	for nm := range st.Objects {
		if !expectedNames[nm] {
			s.Violate("C20.names", bk, "backend object name %q is not the fixed function of (kind, hash, mode)", nm)
		}
	}
	for nm := range st.GetReqs {
		if !expectedNames[nm] {
			s.Violate("C20.names", bk, "backend request name %q is not the fixed function of (kind, hash, mode)", nm)
		}
	}
	// C12.no-leak
	world.Quiescence(s, n, world.QuiescenceOpts{}) // C12.no-leak: reservations, files (reported as C03/C04 clauses)
	if lb := st.LeakedBodies(); len(lb) > 0 {
		s.Violate("C12.no-leak", bk+"/response-body", "backend response bodies neither closed nor read to the end (each pins a connection): %v", lb)
	}
	if fds := world.OpenFDs(n.Dir); len(fds) > 0 {
		s.Violate("C12.no-leak", bk+"/fd", "open descriptors into the cache directory at quiescence: %v", fds)
	}
	if g := world.LeakedGoroutines(); len(g) > 0 {
		s.Violate("C12.no-leak", bk+"/goroutine", "goroutines of the server code left behind at quiescence: %v", g)
	}
}

func faultName(f *world.BFault, fired bool) string {
	if f == nil {
		return "none"
	}
	if !fired {
		return f.Method + ":" + f.Kind + "(not reached)"
	}
	return f.Method + ":" + f.Kind
}

func shorts(h []string) []string {
	out := make([]string, len(h))
	for i, x := range h {
		out[i] = short(x)
	}
	return out
}

func shortN(n string) string {
	if len(n) > 20 {
		return n[:20]
	}
	return n
}

func sortedStr(m map[string]bool) []string {
	var out []string
	for k := range m {
		out = append(out, k)
	}
	for i := range out {
		for j := i + 1; j < len(out); j++ {
			if out[j] < out[i] {
				out[i], out[j] = out[j], out[i]
			}
		}
	}
	return out
}
