package scen

import (
	"bytes"
	"fmt"
	"strings"

	"verifsim/sim"
	"verifsim/world"

	"github.com/buchgr/bazel-remote/v2/cache"
	"google.golang.org/genproto/googleapis/bytestream"
	"google.golang.org/protobuf/proto"

	asset "github.com/buchgr/bazel-remote/v2/genproto/build/bazel/remote/asset/v1"
	pb "github.com/buchgr/bazel-remote/v2/genproto/build/bazel/remote/execution/v2"
)

// hostile — scenario family S6 (C14): malformed resource names, digests,
// sizes, offsets, message sequences, compressed streams that fail while the
// client keeps sending, early client aborts, nil sub-messages, and stored blobs
// that get interpreted as Directory / Tree / ActionResult. After every request:
// no panic, an error status for malformed input, the handler returned, and no
// goroutine, descriptor, reservation or stray file is left.
func init() { Register("hostile", hostileScen) }

type hostileOp struct {
	name    string
	wantErr bool // a malformed request: must be answered with an error status
	run     func(cl *world.Client) world.Res
}

func hostileScen(c *Ctx) {
	r, s := c.R, c.S
	cfg := drawCfg(r, false)
	cfg.ValidateAC = r.Chance(2, 3)
	if r.Chance(1, 4) {
		cfg.MaxBlob = 1 << 20
	}
	s.Policy = sim.Policy{Sticky: []int{6, 0, 4}[r.Intn(3)]}
	c.Logf("cfg %+v", cfg)
	var n *world.Node
	s.StepHook = func(s *sim.Sim) {
		if n != nil && n.Cache != nil {
			world.StepInvariants(s, n, "")
		}
	}
	n = c.Start("g0:", c.Dir("f"), cfg, nil)
	if n.Err != nil {
		s.Violate("C09.starts", "g0:", "start-up failed: %v", n.Err)
		return
	}
	good := world.Make(world.BlobID{Kind: 2, Seed: 15000, Size: 5000})
	big := world.Make(world.BlobID{Kind: 0, Seed: 15001, Size: 300000})
	h := good.Hash
	badHashes := []string{"", "abc", strings.ToUpper(h), strings.Repeat("z", 64), h + "00", h[:63], "../" + h[:61], strings.Repeat("a", 63) + "\n"}
	badSizes := []string{"-1", "x", "", "9223372036854775808", "1e3", " 5", "0x10"}
	garbage := world.Make(world.BlobID{Kind: 0, Seed: 15002, Size: 300}).Data
	// ill-formed blobs the cache may hold (they get there through the CAS, which
	// only checks the hash, and through the disk API / a backend for AC)
	dirNilDigest, _ := proto.Marshal(&pb.Directory{Directories: []*pb.DirectoryNode{{Name: "sub"}}, Files: []*pb.FileNode{{Name: "f"}}})
	dirBadDigest, _ := proto.Marshal(&pb.Directory{Directories: []*pb.DirectoryNode{{Name: "sub", Digest: &pb.Digest{Hash: "xyz", SizeBytes: -4}}}})
	selfRefHash := strings.Repeat("0", 64)
	dirLoop, _ := proto.Marshal(&pb.Directory{Directories: []*pb.DirectoryNode{{Name: "loop", Digest: &pb.Digest{Hash: selfRefHash, SizeBytes: 10}}}})
	treeNilRoot, _ := proto.Marshal(&pb.Tree{Children: []*pb.Directory{{Files: []*pb.FileNode{{Name: "x"}}}, nil}})
	treeGarbage := garbage
	stored := map[string][]byte{}
	storeCAS := func(cl *world.Client, data []byte) *pb.Digest {
		hh := world.HashOf(data)
		if _, ok := stored[hh]; !ok {
			cl.DiskPut(cache.CAS, hh, int64(len(data)), bytes.NewReader(data))
			stored[hh] = data
		}
		return world.Digest(hh, int64(len(data)))
	}
	acKey := world.HashOf([]byte("hostile-ac"))
	pick := func(l []string) string { return l[r.Intn(len(l))] }

	gens := []func() hostileOp{
		func() hostileOp { // ByteStream.Read with a mangled resource name
			names := []string{
				"blobs/" + pick(badHashes) + "/5", "blobs/" + h + "/" + pick(badSizes), "blobs/" + h, "blobs//", "compressed-blobs/zstd/" + h, "compressed-blobs/gzip/" + h + "/5000",
				"compressed-blobs/zstd/" + pick(badHashes) + "/5", "/" + h + "/5000", "", "blobs", strings.Repeat("a/", 2000) + "blobs/" + h + "/5000/extra",
			}
			nm := pick(names)
			return hostileOp{name: "Read name=" + trunc60(nm), wantErr: true, run: func(cl *world.Client) world.Res {
				return cl.BSRead(nm, 0, 0, false, world.FullRead)
			}}
		},
		func() hostileOp { // ByteStream.Read offsets / limits
			off := []int64{-1, 5001, 1 << 62, -1 << 63, 5000}[r.Intn(5)]
			lim := []int64{0, -1, -1 << 63, 1 << 62}[r.Intn(4)]
			z := r.Chance(1, 2)
			bad := off < 0 || off > 5000 || lim < 0 || (z && lim != 0)
			return hostileOp{name: fmt.Sprintf("Read off=%d lim=%d z=%v", off, lim, z), wantErr: bad, run: func(cl *world.Client) world.Res {
				storeCAS(cl, good.Data)
				return cl.BSRead(world.ReadName("", h, 5000, z), off, lim, z, world.FullRead)
			}}
		},
		func() hostileOp { // nil requests
			k := r.Intn(8)
			return hostileOp{name: fmt.Sprintf("nil request #%d", k), wantErr: true, run: func(cl *world.Client) (res world.Res) {
				return rawCall(cl, func() error {
					g := cl.N.GRPC
					var err error
					switch k {
					case 0:
						_, err = g.FindMissingBlobs(cl.Ctx, nil)
					case 1:
						_, err = g.BatchUpdateBlobs(cl.Ctx, nil)
					case 2:
						_, err = g.BatchReadBlobs(cl.Ctx, nil)
					case 3:
						err = g.GetTree(nil, &world.TreeStream{})
					case 4:
						_, err = g.GetActionResult(cl.Ctx, nil)
					case 5:
						_, err = g.UpdateActionResult(cl.Ctx, nil)
					case 6:
						_, err = g.QueryWriteStatus(cl.Ctx, nil)
					case 7:
						_, err = g.SpliceBlob(cl.Ctx, nil)
					}
					return err
				})
			}}
		},
		func() hostileOp { // nil / malformed sub-messages
			k := r.Intn(10)
			return hostileOp{name: fmt.Sprintf("nil sub-message #%d", k), wantErr: true, run: func(cl *world.Client) world.Res {
				return rawCall(cl, func() error {
					g := cl.N.GRPC
					var err error
					bd := &pb.Digest{Hash: pick(badHashes), SizeBytes: 5}
					switch k {
					case 0:
						_, err = g.FindMissingBlobs(cl.Ctx, &pb.FindMissingBlobsRequest{BlobDigests: []*pb.Digest{nil}})
					case 1:
						_, err = g.FindMissingBlobs(cl.Ctx, &pb.FindMissingBlobsRequest{BlobDigests: []*pb.Digest{bd}})
					case 2:
						_, err = g.BatchUpdateBlobs(cl.Ctx, &pb.BatchUpdateBlobsRequest{Requests: []*pb.BatchUpdateBlobsRequest_Request{nil}})
					case 3:
						_, err = g.BatchUpdateBlobs(cl.Ctx, &pb.BatchUpdateBlobsRequest{Requests: []*pb.BatchUpdateBlobsRequest_Request{{Data: []byte("x")}}})
					case 4:
						_, err = g.BatchReadBlobs(cl.Ctx, &pb.BatchReadBlobsRequest{Digests: []*pb.Digest{nil}})
					case 5:
						err = g.GetTree(&pb.GetTreeRequest{}, &world.TreeStream{})
					case 6:
						_, err = g.GetActionResult(cl.Ctx, &pb.GetActionResultRequest{})
					case 7:
						_, err = g.UpdateActionResult(cl.Ctx, &pb.UpdateActionResultRequest{ActionDigest: world.Digest(acKey, 1)})
					case 8:
						_, err = g.SpliceBlob(cl.Ctx, &pb.SpliceBlobRequest{ChunkDigests: []*pb.Digest{nil}})
					case 9:
						_, err = g.GetActionResult(cl.Ctx, &pb.GetActionResultRequest{ActionDigest: &pb.Digest{Hash: pick(badHashes), SizeBytes: -3}})
					}
					return err
				})
			}}
		},
		func() hostileOp { // GetTree / GetActionResult over ill-formed stored blobs
			k := r.Intn(7)
			return hostileOp{name: fmt.Sprintf("ill-formed stored blob #%d", k), wantErr: false, run: func(cl *world.Client) world.Res {
				switch k {
				case 0:
					d := storeCAS(cl, dirNilDigest)
					res, _ := cl.GetTree(d.Hash, d.SizeBytes)
					return res
				case 1:
					d := storeCAS(cl, dirBadDigest)
					res, _ := cl.GetTree(d.Hash, d.SizeBytes)
					return res
				case 2:
					d := storeCAS(cl, garbage)
					res, _ := cl.GetTree(d.Hash, d.SizeBytes)
					return res
				case 3:
					d := storeCAS(cl, dirLoop)
					res, _ := cl.GetTree(d.Hash, d.SizeBytes)
					return res
				case 4, 5, 6:
					// an ActionResult whose output directory points at an ill-formed Tree
					tb := [][]byte{treeNilRoot, treeGarbage, dirNilDigest}[k-4]
					d := storeCAS(cl, tb)
					ar := &pb.ActionResult{OutputDirectories: []*pb.OutputDirectory{{Path: "d", TreeDigest: d}}, ExitCode: 1}
					data, _ := proto.Marshal(ar)
					cl.DiskPut(cache.AC, acKey, int64(len(data)), bytes.NewReader(data))
					res, _ := cl.GetAR("", acKey, world.InlineReq{Stdout: true})
					hg := cl.HTTPGet("/ac/"+acKey, false, world.FullRead)
					_ = hg
					return res
				}
				return world.Res{}
			}}
		},
		func() hostileOp { // arbitrary bytes under an action key
			k := r.Intn(3)
			return hostileOp{name: fmt.Sprintf("garbage action result #%d", k), wantErr: false, run: func(cl *world.Client) world.Res {
				var data []byte
				switch k {
				case 0:
					data = garbage
				case 1:
					data, _ = proto.Marshal(&pb.ActionResult{OutputFiles: []*pb.OutputFile{{Path: "x"}}, OutputDirectories: []*pb.OutputDirectory{{Path: "d"}}})
				default:
					data, _ = proto.Marshal(&pb.ActionResult{StdoutDigest: &pb.Digest{Hash: "nothex", SizeBytes: -1}})
				}
				kind := cache.AC
				if !cfg.ValidateAC {
					kind = cache.RAW
				}
				cl.DiskPut(kind, acKey, int64(len(data)), bytes.NewReader(data))
				res, _ := cl.GetAR("", acKey, world.InlineReq{})
				cl.HTTPGet("/ac/"+acKey, false, world.FullRead)
				cl.HTTPHead("/ac/" + acKey)
				cl.HTTP(world.HTTPReq{Method: "GET", Path: "/ac/" + acKey, Header: map[string]string{"Accept": "application/json"}, FailAt: -1, ParkAt: -1})
				return res
			}}
		},
		func() hostileOp { // ByteStream.Write message sequences
			k := r.Intn(9)
			z := r.Chance(1, 2)
			b := world.Make(world.BlobID{Kind: 0, Seed: 15100 + r.Intn(1000), Size: []int64{300, 70000, 300000}[r.Intn(3)]})
			name := world.WriteName("", "u", b.Hash, b.Size(), z, "")
			payload := b.Data
			if z {
				payload = world.Compress(b.Data, false)
			}
			var msgs []world.WriteMsg
			var endErr error
			wantErr := true
			switch k {
			case 0: // no message at all
			case 1: // name only, then end
				msgs = []world.WriteMsg{{Req: &bytestream.WriteRequest{ResourceName: name}}}
				wantErr = b.Size() > 0
			case 2: // empty resource name
				msgs = []world.WriteMsg{{Req: &bytestream.WriteRequest{Data: payload, FinishWrite: true}}}
			case 3: // data after finish_write
				msgs = world.SplitMsgs(name, payload, []int{len(payload) / 2}, false, true)
				msgs[0].Req.FinishWrite = true
			case 4: // garbage instead of zstd, in several messages, client keeps sending
				name = world.WriteName("", "u", b.Hash, b.Size(), true, "")
				junk := world.Make(world.BlobID{Kind: 0, Seed: 15900, Size: 300000}).Data
				msgs = world.SplitMsgs(name, junk, []int{100000, 200000}, true, true)
			case 5: // valid zstd prefix, then garbage
				name = world.WriteName("", "u", b.Hash, b.Size(), true, "")
				zz := world.Compress(b.Data, false)
				junk := append(append([]byte(nil), zz[:len(zz)/2]...), garbage...)
				junk = append(junk, world.Make(world.BlobID{Kind: 0, Seed: 15901, Size: 200000}).Data...)
				msgs = world.SplitMsgs(name, junk, []int{len(zz) / 2, len(zz)/2 + 150, len(junk) - 100000}, true, true)
			case 6: // client aborts after the j-th message
				msgs = world.SplitMsgs(name, payload, []int{len(payload) / 3, 2 * len(payload) / 3}, true, true)
				msgs = msgs[:1+r.Intn(len(msgs))]
				msgs[len(msgs)-1].Req.FinishWrite = false
				endErr = world.ErrInjected
			case 7: // declared size beyond every limit
				name = fmt.Sprintf("uploads/u/blobs/%s/%d", b.Hash, int64(1)<<62)
				msgs = world.SplitMsgs(name, payload, nil, true, true)
			case 8: // well-formed (control)
				msgs = world.SplitMsgs(name, payload, world.DrawCuts(r, len(payload)), true, true)
				wantErr = false
			}
			return hostileOp{name: fmt.Sprintf("Write script #%d z=%v %s", k, z, b.ID), wantErr: wantErr, run: func(cl *world.Client) world.Res {
				res, _ := cl.BSWrite(msgs, endErr)
				return res
			}}
		},
		func() hostileOp { // HTTP oddities
			k := r.Intn(10)
			return hostileOp{name: fmt.Sprintf("HTTP #%d", k), wantErr: true, run: func(cl *world.Client) world.Res {
				body := func() *world.ParkReader { return world.NewParkReader(s, good.Data, nil, -1) }
				var q world.HTTPReq
				switch k {
				case 0:
					q = world.HTTPReq{Method: "GET", Path: "/cas/" + pick(badHashes[1:])}
				case 1:
					q = world.HTTPReq{Method: "PUT", Path: "/cas/" + h, CLen: -1, Body: body()}
				case 2:
					q = world.HTTPReq{Method: "PUT", Path: "/cas/" + h, CLen: 5000, Body: body(), Header: map[string]string{"X-Digest-SizeBytes": pick([]string{"-1", "x", "9223372036854775808", "1e3", "0x10"})}}
				case 3:
					q = world.HTTPReq{Method: "DELETE", Path: "/cas/" + h}
				case 4:
					q = world.HTTPReq{Method: "PUT", Path: "/cas/" + h, CLen: 0}
				case 5:
					q = world.HTTPReq{Method: "PUT", Path: "/ac/" + acKey, CLen: int64(len(garbage)), Body: world.NewParkReader(s, garbage, nil, -1)}
				case 6:
					q = world.HTTPReq{Method: "PUT", Path: "/ac/" + acKey, CLen: 5, Body: world.NewParkReader(s, []byte("{bad}"), nil, -1), Header: map[string]string{"Content-Type": "application/json"}}
				case 7:
					q = world.HTTPReq{Method: "PUT", Path: "/cas/" + h, CLen: 5000, Body: world.NewParkReader(s, garbage, nil, -1), Header: map[string]string{"Content-Encoding": "zstd", "X-Digest-SizeBytes": "5000"}}
				case 8:
					q = world.HTTPReq{Method: "GET", Path: "/" + strings.Repeat("x/", 500) + "blobs/" + h}
				case 9:
					q = world.HTTPReq{Method: "PUT", Path: "/cas/" + h, CLen: 5000, Body: world.NewParkReader(s, good.Data, []int{2500}, 2500)}
				}
				q.FailAt, q.ParkAt = -1, -1
				if (k == 5 || k == 6) && !cfg.ValidateAC {
					// raw mode stores anything: not malformed
					res, _ := cl.HTTP(q)
					res.OK = false
					return res
				}
				res, _ := cl.HTTP(q)
				return res
			}}
		},
		func() hostileOp { // Remote Asset
			k := r.Intn(5)
			return hostileOp{name: fmt.Sprintf("FetchBlob #%d", k), wantErr: false, run: func(cl *world.Client) world.Res {
				return rawCall(cl, func() error {
					var req *asset.FetchBlobRequest
					switch k {
					case 0:
						req = nil
					case 1:
						req = &asset.FetchBlobRequest{Qualifiers: []*asset.Qualifier{nil}}
					case 2:
						req = &asset.FetchBlobRequest{Uris: []string{"ftp://x/y", "::bad::", "http://origin/none"}, Qualifiers: []*asset.Qualifier{{Name: "checksum.sri", Value: "sha256-!!!"}}}
					case 3:
						req = &asset.FetchBlobRequest{Uris: []string{"http://origin/none"}, Qualifiers: []*asset.Qualifier{{Name: "http_header_url:9:X", Value: "v"}, {Name: "http_header_url:x", Value: "v"}, {Name: "http_header:A", Value: "b,c"}}}
					case 4:
						req = &asset.FetchBlobRequest{Qualifiers: []*asset.Qualifier{{Name: "checksum.sri", Value: "sha256-" + "QUJD"}}}
					}
					resp, err := cl.N.GRPC.FetchBlob(cl.Ctx, req)
					if err == nil && resp == nil {
						return fmt.Errorf("nil response without error")
					}
					return err
				})
			}}
		},
		func() hostileOp { // reads abandoned by the client mid-stream
			k := r.Intn(3)
			at := 1 + r.Intn(200000)
			return hostileOp{name: fmt.Sprintf("abandoned read #%d at %d", k, at), wantErr: false, run: func(cl *world.Client) world.Res {
				storeCAS(cl, big.Data)
				ro := world.ReadOpts{ParkAt: -1, StopAt: at}
				switch k {
				case 0:
					return cl.HTTPGet("/cas/"+big.Hash, r.Chance(1, 2), ro)
				case 1:
					return cl.BSRead(world.ReadName("", big.Hash, big.Size(), r.Chance(1, 2)), 0, 0, false, ro)
				default:
					return cl.DiskGet(cache.CAS, big.Hash, big.Size(), 0, r.Chance(1, 2), ro)
				}
			}}
		},
	}
	nOps := 5 + r.Intn(12)
	var ops []hostileOp
	for i := 0; i < nOps; i++ {
		o := gens[r.Intn(len(gens))]()
		ops = append(ops, o)
		c.Logf("%d: %s (must fail: %v)", i, o.name, o.wantErr)
	}
	s.Go("g0:c0", func() {
		cl := world.NewClient(s, n)
		for i, o := range ops {
			res := o.run(cl)
			c.Res.Ops++
			if s.Panicked {
				return // the handler may have died holding the cache mutex
			}
			s.Settle()
			s.Note("%d %s -> %s", i, o.name, res.Code)
			site := o.name
			if j := strings.IndexAny(site, " #"); j > 0 {
				site = site[:j]
			}
			if o.wantErr && res.OK && res.Panic == "" {
				s.Violate("C14.error-status", site, "malformed request %q answered with success", o.name)
			}
			// nothing may be left behind by a finished request
			ob := world.Observe(n)
			if ob.Cnt.ReservedSize != 0 {
				s.Violate("C14.reserved", site, "request %q left %d bytes reserved", o.name, ob.Cnt.ReservedSize)
			}
			if g := world.LeakedGoroutines(); len(g) > 0 {
				s.Violate("C14.goroutines", site, "request %q left goroutines behind: %v", o.name, g)
			}
			if fds := world.OpenFDs(n.Dir); len(fds) > 0 {
				s.Violate("C14.fds", site, "request %q left descriptors open: %v", o.name, fds)
			}
			if bl := backlogBytes(n, ob); bl != 0 && ob.Cnt.QueuedEvictionsSize == 0 {
				s.Violate("C14.tempfiles", site, "request %q left %d bytes of files that are not indexed entries", o.name, bl)
			}
			if s.Failed() {
				return
			}
		}
	})
	if c.RunTasks("C14.returns") == sim.Hung {
		return
	}
	c.CheckPanics("g0:c0")
	if s.Drain() == sim.Quiesced && !s.Failed() {
		world.Quiescence(s, n, world.QuiescenceOpts{})
	}
}

func trunc60(s string) string {
	if len(s) > 60 {
		return s[:60] + "..."
	}
	return s
}

// rawCall invokes a handler directly, turning panics into a C14 violation.
func rawCall(cl *world.Client, f func() error) (res world.Res) {
	res.Size = -2
	defer func() {
		if p := recover(); p != nil {
			res.Panic = fmt.Sprint(p)
			res.Code = "PANIC"
			cl.S.Panicked = true
			cl.S.Violate("C14.panic", "handler", "handler panicked: %v\n%s", p, world.PanicFrames())
		}
	}()
	err := f()
	res.OK = err == nil
	if err != nil {
		res.Code = "Error"
		res.Err = err.Error()
	} else {
		res.Code = "OK"
	}
	return
}
