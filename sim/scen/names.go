package scen

import (
	"context"
	"fmt"
	"io"
	"net/http"
	"path"
	"strings"

	"verifsim/world"

	"github.com/buchgr/bazel-remote/v2/cache"
	"github.com/buchgr/bazel-remote/v2/cache/azblobproxy"
	"github.com/buchgr/bazel-remote/v2/cache/s3proxy"
)

// names — C20 "backend object names are a fixed, injective function of key
// space, hash, storage mode and prefix". The S3 and Azure proxies' SDK clients
// do not run in the simulation; only their pure key functions are evaluated
// here (a spot check labelled as such in DESIGN.md): against the harness's
// restatement of the published naming, and for injectivity over the tuples.
func init() { Register("names", namesScen) }

func expectKey(prefix string, kind cache.EntryKind, hash string, v2 bool) string {
	ks := kind.String()
	if v2 && kind == cache.CAS {
		ks = "cas.v2"
	}
	k := ks + "/" + hash[:2] + "/" + hash
	if prefix != "" {
		k = prefix + "/" + k
	}
	return k
}

func namesScen(c *Ctx) {
	r, s := c.R, c.S
	prefixes := []string{"", "p", "a/b", "cas", "cas.v2", "x/ac"}
	kinds := []cache.EntryKind{cache.AC, cache.CAS, cache.RAW}
	seen := map[string]string{}
	n := 40 + r.Intn(40)
	for i := 0; i < n; i++ {
		hash := world.HashOf([]byte(fmt.Sprintf("name-%d", r.Intn(12))))
		prefix := prefixes[r.Intn(len(prefixes))]
		kind := kinds[r.Intn(3)]
		v2 := r.Chance(1, 2)
		for _, impl := range []string{"s3", "azblob"} {
			var got string
			switch {
			case impl == "s3" && v2:
				got = s3proxy.VerifObjectKeyV2(prefix, hash, kind)
			case impl == "s3":
				got = s3proxy.VerifObjectKeyV1(prefix, hash, kind)
			case v2:
				got = azblobproxy.VerifObjectKeyV2(prefix, hash, kind)
			default:
				got = azblobproxy.VerifObjectKeyV1(prefix, hash, kind)
			}
			want := expectKey(prefix, kind, hash, v2)
			c.Res.Ops++
			if got != want {
				s.Violate("C20.names", impl, "object key for (kind=%s, prefix=%q, v2=%v) is %q, the published layout gives %q", kind, prefix, v2, got, want)
			}
			tuple := fmt.Sprintf("%s|%s|%s|%v|%s", impl, kind, prefix, v2, hash)
			id := impl + "|" + fmt.Sprint(v2) + "|" + got
			if prev, ok := seen[id]; ok && prev != tuple {
				// same bucket, same mode, same name for two different tuples
				s.Violate("C20.names", impl, "object key %q is produced by two different tuples: %s and %s", got, prev, tuple)
			}
			seen[id] = tuple
		}
		if h := world.ObjectName(kind, hash, v2); h != map[bool]string{true: "cas.v2/", false: kind.String() + "/"}[v2 && kind == cache.CAS]+hash {
			s.Violate("C20.names", "harness", "harness naming restatement is inconsistent: %s", h)
		}
	}
	s.Note("names checked %d", n)
	azblobOnTransport(c)
}

// azTransport stands in for the Azure blob service: it records the blob name
// of every request and answers 404 (reads) / 201 (uploads).
type azTransport struct{ paths []string }

func (t *azTransport) Do(req *http.Request) (*http.Response, error) {
	t.paths = append(t.paths, req.Method+" "+req.URL.Path)
	if req.Body != nil {
		_, _ = io.Copy(io.Discard, req.Body)
		_ = req.Body.Close()
	}
	code := 404
	if req.Method == http.MethodPut {
		code = 201
	}
	return &http.Response{StatusCode: code, Status: fmt.Sprint(code), Header: http.Header{"X-Ms-Error-Code": {"BlobNotFound"}}, Body: io.NopCloser(strings.NewReader("")), Request: req}, nil
}

type nullLogger struct{}

func (nullLogger) Printf(string, ...any) {}

// azblobOnTransport: the real azblobproxy (built by its New) on an in-memory
// transport. The blob name 2.x asks the service for is the configured prefix
// verbatim, a slash, and the object key (which itself starts with the cleaned
// prefix); without a prefix it is the object key. That name must be what Get,
// Contains and UploadFile use, for prefixes in and not in path.Clean form
// (added after seeded change C20d; the SDK's HTTP pipeline runs, the service
// is the stub above).
func azblobOnTransport(c *Ctx) {
	r, s := c.R, c.S
	prefixes := []string{"", "p", "a/b", "team/", "foo//bar", "x/./y", "cas.v2"}
	kinds := []cache.EntryKind{cache.AC, cache.CAS, cache.RAW}
	for i := 0; i < 6; i++ {
		prefix := prefixes[r.Intn(len(prefixes))]
		kind := kinds[r.Intn(3)]
		v2 := r.Chance(1, 2)
		mode := map[bool]string{true: "zstd", false: "uncompressed"}[v2]
		hash := world.HashOf([]byte(fmt.Sprintf("az-%d", r.Intn(12))))
		ks := kind.String()
		if v2 && kind == cache.CAS {
			ks = "cas.v2"
		}
		want := ks + "/" + hash[:2] + "/" + hash
		if prefix != "" {
			want = prefix + "/" + path.Clean(prefix) + "/" + want
		}
		t := &azTransport{}
		p := azblobproxy.VerifNewOnTransport(prefix, mode, t, nullLogger{})
		op := r.Intn(3)
		switch op {
		case 0:
			p.Contains(context.Background(), kind, hash, -1)
		case 1:
			if rc, _, err := p.Get(context.Background(), kind, hash, -1); err == nil && rc != nil {
				_ = rc.Close()
			}
		default:
			azblobproxy.VerifUpload(p, kind, hash, []byte("payload"))
		}
		c.Res.Ops++
		opName := []string{"Contains", "Get", "UploadFile"}[op]
		if len(t.paths) == 0 {
			s.Violate("C20.names", "azblob/"+opName, "no request reached the blob service")
			continue
		}
		got := t.paths[0]
		if sp := strings.IndexByte(got, ' '); sp >= 0 {
			got = got[sp+1:]
		}
		if got != "/cont/"+want {
			s.Violate("C20.names", "azblob/"+opName, "blob requested for (kind=%s, prefix=%q, mode=%s) is %q, release 2.x uses %q", kind, prefix, mode, got, "/cont/"+want)
		}
		s.Note("az %s %s %q -> %s", opName, kind, prefix, got)
	}
}
