package scen

import (
	"fmt"

	"verifsim/world"

	"github.com/buchgr/bazel-remote/v2/cache"
	"github.com/buchgr/bazel-remote/v2/cache/azblobproxy"
	"github.com/buchgr/bazel-remote/v2/cache/s3proxy"
)

// names — C20 "backend object names are a fixed, injective function of key
// space, hash, storage mode and prefix". The S3 and Azure proxies' SDK clients
// do not run in the simulation; only their pure key functions are evaluated
// here (a spot check labelled as such in DESIGN.md): against the harness's
// restatement of the published naming, and for injectivity over the tuples.
func init() { Register("names", namesScen) }

func expectKey(prefix string, kind cache.EntryKind, hash string, v2 bool) string {
	ks := kind.String()
	if v2 && kind == cache.CAS {
		ks = "cas.v2"
	}
	k := ks + "/" + hash[:2] + "/" + hash
	if prefix != "" {
		k = prefix + "/" + k
	}
	return k
}

func namesScen(c *Ctx) {
	r, s := c.R, c.S
	prefixes := []string{"", "p", "a/b", "cas", "cas.v2", "x/ac"}
	kinds := []cache.EntryKind{cache.AC, cache.CAS, cache.RAW}
	seen := map[string]string{}
	n := 40 + r.Intn(40)
	for i := 0; i < n; i++ {
		hash := world.HashOf([]byte(fmt.Sprintf("name-%d", r.Intn(12))))
		prefix := prefixes[r.Intn(len(prefixes))]
		kind := kinds[r.Intn(3)]
		v2 := r.Chance(1, 2)
		for _, impl := range []string{"s3", "azblob"} {
			var got string
			switch {
			case impl == "s3" && v2:
				got = s3proxy.VerifObjectKeyV2(prefix, hash, kind)
			case impl == "s3":
				got = s3proxy.VerifObjectKeyV1(prefix, hash, kind)
			case v2:
				got = azblobproxy.VerifObjectKeyV2(prefix, hash, kind)
			default:
				got = azblobproxy.VerifObjectKeyV1(prefix, hash, kind)
			}
			want := expectKey(prefix, kind, hash, v2)
			c.Res.Ops++
			if got != want {
				s.Violate("C20.names", impl, "object key for (kind=%s, prefix=%q, v2=%v) is %q, the published layout gives %q", kind, prefix, v2, got, want)
			}
			tuple := fmt.Sprintf("%s|%s|%s|%v|%s", impl, kind, prefix, v2, hash)
			id := impl + "|" + fmt.Sprint(v2) + "|" + got
			if prev, ok := seen[id]; ok && prev != tuple {
				// same bucket, same mode, same name for two different tuples
				s.Violate("C20.names", impl, "object key %q is produced by two different tuples: %s and %s", got, prev, tuple)
			}
			seen[id] = tuple
		}
		if h := world.ObjectName(kind, hash, v2); h != map[bool]string{true: "cas.v2/", false: kind.String() + "/"}[v2 && kind == cache.CAS]+hash {
			s.Violate("C20.names", "harness", "harness naming restatement is inconsistent: %s", h)
		}
	}
	s.Note("names checked %d", n)
}
