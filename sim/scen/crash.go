package scen

import (
	"bytes"
	"fmt"
	"os"
	"path/filepath"
	"strconv"

	"verifsim/fmtv2"
	"verifsim/sim"
	"verifsim/world"

	"github.com/buchgr/bazel-remote/v2/cache"
)

// crash — scenario family S3 (C08): a pre-populated cache, one or two victim
// tasks performing uploads / overwrites / eviction-triggering puts, a process
// kill at a scheduling step (all goroutines of the instance stay parked for
// ever), restart on the directory as it is, then every key ever written or in
// flight is read on every path with size known and unknown.
//
// Options: enum=1 runs the plan once without a kill to count the N reachable
// steps of the victim phase and then once per i in 1..N (fault enumeration);
// crash_at=i kills at step i; neither: i is drawn from the plan tape.
func init() { Register("crash", crashScen) }

func (c *Ctx) freshTapes() (*sim.Tape, *sim.Tape) {
	if c.P.Replay {
		return sim.ReplayTape(c.P.Plan), sim.ReplayTape(c.P.Sched)
	}
	return sim.NewTape(c.P.Seed*2 + 1), sim.NewTape(c.P.Seed*2 + 2)
}

func crashScen(c *Ctx) {
	if c.Opt("enum", "") != "1" {
		at := -1 // drawn
		if v := c.Opt("crash_at", ""); v != "" {
			at, _ = strconv.Atoi(v)
		}
		crashBody(c, c.S, at, "")
		return
	}
	// probe: no kill
	c.S.Inert = true
	plan, sched := c.freshTapes()
	sub := sim.New(plan, sched)
	n := crashBody(c, sub, 0, "probe")
	sub.Close()
	pv, sv := plan.Used(), sched.Used()
	c.Res.PlanTape, c.Res.SchedTape = pv, sv
	merge(c, sub, "0")
	if c.Res.Extra == nil {
		c.Res.Extra = map[string]int64{}
	}
	c.Res.Extra["crash_points"] = int64(n)
	if sub.Failed() || n <= 0 {
		return
	}
	// every step, or (quick tier) an evenly spaced subset of at most enum_max steps
	max := 400
	if v := c.Opt("enum_max", ""); v != "" {
		max, _ = strconv.Atoi(v)
	}
	stride := 1
	if n > max && max > 0 {
		stride = (n + max - 1) / max
	}
	c.Res.Extra["crash_stride"] = int64(stride)
	// with a stride, start at a plan-dependent offset so that similar plans
	// do not all skip the same steps
	first := 1
	if stride > 1 {
		first = 1 + int(c.P.Seed%uint64(stride))
	}
	for i := first; i <= n; i += stride {
		sub := sim.New(sim.ReplayTape(pv), sim.ReplayTape(sv))
		crashBody(c, sub, i, "")
		sub.Close()
		merge(c, sub, strconv.Itoa(i))
		if c.S.Failed() {
			return
		}
	}
}

// merge folds a sub-run into the enclosing run's result.
func merge(c *Ctx, sub *sim.Sim, at string) {
	for _, v := range sub.Violations {
		v.ReplayOpt = map[string]string{"crash_at": at}
		v.Detail = "[crash_at=" + at + "] " + v.Detail
		c.S.Violations = append(c.S.Violations, v)
	}
	for k, n := range sub.Faults {
		c.S.Faults[k] += n
	}
	for k, n := range sub.Probes {
		c.S.Probes[k] += n
	}
	c.S.Steps += sub.Steps
	c.S.Preempts += sub.Preempts
	c.S.Note("sub %s trace %s", at, sub.TraceHash())
	if sub.Aborted != "" {
		c.S.Aborted = sub.Aborted
	}
	if len(c.S.TraceLog) < c.S.KeepLog {
		c.S.TraceLog = append(c.S.TraceLog, "--- sub-run crash_at="+at)
		c.S.TraceLog = append(c.S.TraceLog, sub.TraceLog...)
	}
}

type crashKey struct {
	kind    cache.EntryKind
	hash    string
	vals    map[string][]byte // value id -> content of every upload ever started for this key
	acked   map[string]bool   // value ids of acknowledged uploads
	flying  map[string]bool   // value ids of uploads in flight at the kill
	sentBad [][]byte          // payloads of uploads to this key whose bytes did not match the digest (they must be rejected)
	fetched map[string]bool   // value ids of completed fetches through the backend (complete, but nobody was promised they stay)
	flight  bool              // an upload was in flight at the kill
}

type victimOp struct {
	descr string
	key   *crashKey
	val   *world.Blob
	via   int // 0 disk.Put, 1 HTTP PUT, 2 ByteStream.Write
	cuts  []int
	send  []byte // bytes actually sent (a corrupted upload sends wrong bytes of the right length)
}

func crashBody(c *Ctx, s *sim.Sim, at int, tag string) (victimSteps int) {
	r := s.Plan
	tight := r.Chance(1, 3)
	cfg := drawCfg(r, tight)
	cfg.ValidateAC = false // HTTP /ac/ stores raw values in this scenario
	if tight {
		cfg.MaxSize = []int64{64 << 10, 40 << 10, 128 << 10}[r.Intn(3)]
	}
	s.Policy = sim.Policy{Sticky: []int{6, 0, 4}[r.Intn(3)]}
	if r.Chance(1, 4) {
		s.Policy.StarveRemover = true
	}
	log := func(format string, a ...any) {
		if tag != "" || c.Opt("enum", "") != "1" {
			c.Logf(format, a...)
		}
	}
	log("cfg %+v policy %+v", cfg, s.Policy)
	runCounter++
	dir := c.Dir(fmt.Sprintf("crash%d", runCounter))
	defer os.RemoveAll(dir)
	var n *world.Node
	s.StepHook = func(s *sim.Sim) {
		if n != nil && n.Cache != nil {
			world.StepInvariants(s, n, "")
		}
	}
	// Optionally a backend (b0): uploads are written through, and some victim
	// operations are reads of keys only the backend holds, so that the kill
	// lands inside a backend fetch. The restarted instance has no backend:
	// what is judged is what the directory holds.
	var st *world.Store
	var proxy cache.Proxy
	if r.Chance(1, 2) {
		st = world.NewStore(s, cfg.Storage == "zstd")
		st.BodyParks = []int{16, 46, 100, 4096, 70000, 1<<20 + 100, 2 << 20}
		proxy = &world.DirectProxy{St: st}
	}
	n = world.StartNode(s, "g0:", dir, cfg, proxy)
	s.Run()
	if n.Err != nil || n.Cache == nil {
		s.Violate("C08.starts", "g0:", "start-up failed on an empty directory: %v", n.Err)
		return 0
	}
	keys := map[string]*crashKey{}
	var order []*crashKey
	key := func(kind cache.EntryKind, hash string) *crashKey {
		k := kind.String() + "/" + hash
		if keys[k] == nil {
			keys[k] = &crashKey{kind: kind, hash: hash, vals: map[string][]byte{}, acked: map[string]bool{}, flying: map[string]bool{}, fetched: map[string]bool{}}
			order = append(order, keys[k])
		}
		return keys[k]
	}
	small := []int64{3000, 100, 4096, 9000, 1, 70000}
	big := []int64{1<<20 + 1, 2<<20 + 17, 1 << 20}
	drawSize := func() int64 {
		if !tight && r.Chance(1, 5) {
			return big[r.Intn(len(big))]
		}
		return small[r.Intn(len(small))]
	}
	// pre-population (acknowledged, quiescent before the victims start)
	nPre := r.Intn(4)
	type preOp struct {
		k *crashKey
		b *world.Blob
	}
	var pre []preOp
	acHashes := []string{world.HashOf([]byte("crash-ac-0")), world.HashOf([]byte("crash-ac-1"))}
	seq := 0
	newVal := func(kind cache.EntryKind) (*crashKey, *world.Blob) {
		seq++
		b := world.Make(world.BlobID{Kind: r.Intn(4), Seed: 300 + seq, Size: drawSize()})
		if kind == cache.CAS {
			return key(cache.CAS, b.Hash), b
		}
		// AC/RAW values must be attributable: incompressible unique content
		b = world.Make(world.BlobID{Kind: 0, Seed: 300 + seq, Size: []int64{200, 5000, 70000, 4096}[r.Intn(4)]})
		return key(kind, acHashes[r.Intn(2)]), b
	}
	for i := 0; i < nPre; i++ {
		kind := []cache.EntryKind{cache.CAS, cache.AC, cache.RAW}[r.Weighted(3, 2, 1)]
		k, b := newVal(kind)
		k.vals[b.Hash] = b.Data
		pre = append(pre, preOp{k, b})
		log("pre: put %s %s <- %s", kind, short(k.hash), b.ID)
	}
	nVict := 1 + r.Intn(2)
	victims := make([][]victimOp, nVict)
	for v := range victims {
		nOps := 1 + r.Intn(2)
		for j := 0; j < nOps; j++ {
			kind := []cache.EntryKind{cache.CAS, cache.AC, cache.RAW}[r.Weighted(3, 2, 1)]
			k, b := newVal(kind)
			if kind == cache.CAS && r.Chance(1, 4) {
				// re-upload of a blob that is already stored and acknowledged
				for _, p := range pre {
					if p.k.kind == cache.CAS {
						k, b = p.k, p.b
						break
					}
				}
			}
			k.vals[b.Hash] = b.Data
			op := victimOp{key: k, val: b, cuts: world.DrawCuts(r, len(b.Data)), send: b.Data}
			if st != nil && kind != cache.RAW && r.Chance(1, 2) {
				// a read of a key that only the backend holds (unless another
				// victim uploads it meanwhile): via 3 size known, via 4 unknown
				if kind == cache.CAS {
					// large enough for several chunks at the small chunk sizes below
					seq++
					b = world.Make(world.BlobID{Kind: r.Intn(4), Seed: 300 + seq, Size: []int64{9000, 70000, 20000, 4097}[r.Intn(4)]})
					k = key(cache.CAS, b.Hash)
					k.vals[b.Hash] = b.Data
					op = victimOp{key: k, val: b, send: b.Data}
				}
				obj := b.Data
				if st.V2 && kind == cache.CAS {
					// (any chunk size is legal in the format: small ones give
					// small blobs several chunks, so that a kill can land
					// exactly between two chunks of the incoming stream)
					obj = fmtv2.Encode(b.Data, fmtv2.WriteOpts{ChunkSize: []uint32{4096, 4096, 65536, 1 << 20}[r.Intn(4)]})
				}
				st.Objects[world.ObjectName(kind, k.hash, st.V2)] = obj
				op.via = 3 + r.Intn(2)
				op.descr = fmt.Sprintf("v%d: fetch %s %s = %s through the backend via %d", v, kind, short(k.hash), b.ID, op.via)
				log("%s", op.descr)
				victims[v] = append(victims[v], op)
				continue
			}
			if kind == cache.CAS && r.Chance(1, 5) {
				// an upload whose bytes do not match the digest: it must be rejected,
				// and whatever it left on disk at a kill must never be served
				bad := append([]byte(nil), b.Data...)
				bad[r.Intn(len(bad))] ^= 0x20
				op.send = bad
				k.sentBad = append(k.sentBad, bad)
			}
			if kind == cache.CAS {
				op.via = r.Intn(3)
			} else if kind == cache.RAW {
				op.via = r.Intn(2) // HTTP /ac/ with validation off is the RAW key space
			}
			op.descr = fmt.Sprintf("v%d: put %s %s <- %s via %d cuts=%v corrupt=%v", v, kind, short(k.hash), b.ID, op.via, op.cuts, &op.send[0] != &b.Data[0])
			log("%s", op.descr)
			victims[v] = append(victims[v], op)
		}
	}
	if at < 0 {
		at = r.Intn(120)
	}
	other := r.Chance(1, 3) // restart under the other storage mode
	smaller := r.Chance(1, 5)
	log("crash_at=%d other_mode=%v smaller=%v", at, other, smaller)

	s.Go("g0:pre", func() {
		cl := world.NewClient(s, n)
		for _, p := range pre {
			res := cl.DiskPut(p.k.kind, p.k.hash, p.b.Size(), bytes.NewReader(p.b.Data))
			if res.OK {
				p.k.acked[p.b.Hash] = true
			} else if !tight {
				s.Violate("C01.accept", "disk.Put", "pre-population upload refused: %s", res.Err)
			}
		}
	})
	if s.Run() != sim.Done {
		s.Aborted = "pre-population did not finish"
		return 0
	}
	s.Drain()
	start := s.Steps
	ackMu := make(chan struct{}, 1)
	type ack struct {
		k *crashKey
		v string
	}
	var acks []ack
	type fl struct {
		k *crashKey
		v string
	}
	inflight := map[fl]bool{}
	for v := range victims {
		v := v
		s.Go(fmt.Sprintf("g0:v%d", v), func() {
			cl := world.NewClient(s, n)
			for _, op := range victims[v] {
				ackMu <- struct{}{}
				inflight[fl{op.key, op.val.Hash}] = true
				<-ackMu
				var res world.Res
				rd := world.NewParkReader(s, op.send, op.cuts, -1)
				if &op.send[0] != &op.val.Data[0] {
					s.Fault("upload.flip")
				}
				switch {
				case op.via >= 3:
					sz := op.val.Size()
					if op.via == 4 {
						sz = -1
					}
					s.Fault("crash.victim-fetch")
					res = cl.DiskGet(op.key.kind, op.key.hash, sz, 0, false, world.FullRead)
					if res.OK && res.Found && op.key.kind == cache.CAS && !bytes.Equal(res.Data, op.val.Data) {
						s.Violate("C12.faithful", "crash/victim-fetch", "fetch through the backend returned other bytes")
					}
					fetchedOK := res.OK && res.Found
					res.OK = false // not an acknowledged upload
					if fetchedOK {
						ackMu <- struct{}{}
						op.key.fetched[world.HashOf(res.Data)] = true
						<-ackMu
					}
				case op.via == 0:
					res = cl.DiskPut(op.key.kind, op.key.hash, op.val.Size(), rd)
				case op.via == 1 && op.key.kind == cache.CAS:
					res, _ = cl.HTTP(world.HTTPReq{Method: "PUT", Path: "/cas/" + op.key.hash, CLen: op.val.Size(), Body: rd, FailAt: -1, ParkAt: -1})
				case op.via == 1:
					res, _ = cl.HTTP(world.HTTPReq{Method: "PUT", Path: "/ac/" + op.key.hash, CLen: op.val.Size(), Body: rd, FailAt: -1, ParkAt: -1})
				default:
					name := world.WriteName("", "u", op.key.hash, op.val.Size(), false, "")
					res, _ = cl.BSWrite(world.SplitMsgs(name, op.send, op.cuts, true, true), nil)
				}
				ackMu <- struct{}{}
				if res.OK && &op.send[0] != &op.val.Data[0] && !op.key.acked[op.val.Hash] {
					s.Violate("C01.ack-match", "crash/victim", "upload with wrong bytes acknowledged")
				}
				if res.OK {
					acks = append(acks, ack{op.key, op.val.Hash})
				}
				delete(inflight, fl{op.key, op.val.Hash})
				<-ackMu
				s.Note("victim %s -> %s", op.descr, res.Code)
			}
		})
	}
	if at > 0 {
		s.StopAt = start + at
	}
	rr := s.Run()
	s.StopAt = 0
	victimSteps = s.Steps - start
	if at == 0 {
		// probe run: finish cleanly, check quiescence, report the step count
		if rr == sim.Hung {
			s.Violate("C07.deadlock", "victims", "victim uploads hang: %v", s.PendingTasks())
			return 0
		}
		s.Drain()
		world.Quiescence(s, n, world.QuiescenceOpts{})
		return victimSteps
	}
	killed := rr == sim.Stopped
	if killed {
		s.Fault("crash.kill")
	} else {
		s.Fault("crash.kill-when-idle")
	}
	// ---- the process dies here: nothing of generation g0 ever runs again
	s.Kill("g0:")
	for _, a := range acks {
		a.k.acked[a.v] = true
	}
	for f := range inflight {
		f.k.flight = true
		f.k.flying[f.v] = true
	}
	world.StampTimes(dir, s.Created()) // access times follow the creation order
	cfg2 := cfg
	if other {
		cfg2.Storage = map[string]string{"zstd": "uncompressed", "uncompressed": "zstd"}[cfg.Storage]
	}
	if smaller {
		cfg2.MaxSize = cfg.MaxSize / 2
	}
	var n2 *world.Node
	s.StepHook = func(s *sim.Sim) {
		if n2 != nil && n2.Cache != nil {
			world.StepInvariants(s, n2, "")
		}
	}
	n2 = world.StartNode(s, "g1:", dir, cfg2, nil)
	if res := s.Run(); res != sim.Done {
		s.Violate("C08.starts", "g1:", "restart after the kill did not finish (%d), pending %v", res, s.PendingTasks())
		return
	}
	if p, st := s.TaskPanic("g1:startup"); p != nil {
		s.Violate("C08.starts", "g1:", "restart after the kill panicked: %v\n%s", p, st)
		return
	}
	if n2.Err != nil {
		s.Violate("C08.starts", "g1:", "restart after the kill failed: %v", n2.Err)
		return
	}
	roomy := !tight && !smaller
	s.Go("g1:verify", func() {
		cl := world.NewClient(s, n2)
		for _, k := range order {
			verifyKey(s, cl, k, roomy, cfg2, cfg.Storage)
		}
	})
	if s.Run() == sim.Hung {
		s.Violate("C07.deadlock", "verify", "reads after the restart hang")
		return
	}
	if p, st := s.TaskPanic("g1:verify"); p != nil {
		s.Violate("C14.panic", "g1:verify", "%v\n%s", p, st)
	}
	s.Drain()
	// C08.post: accounting and directory invariants hold after the restart.
	// Entries that were in flight may be incomplete files that the loader
	// indexed by name; the read path drops them on first touch, so only the
	// bijection and sizes are judged for them.
	inf := map[string]bool{}
	for _, k := range order {
		if k.flight {
			inf[k.kind.String()+"/"+k.hash] = true
		}
	}
	nv := len(s.Violations)
	world.Quiescence(s, n2, world.QuiescenceOpts{InFlight: inf})
	for i := nv; i < len(s.Violations); i++ {
		s.Violations[i].Clause = "C08.post/" + s.Violations[i].Clause
	}
	if s.Failed() {
		return
	}
	// C08.retry: the interrupted uploads can simply be repeated.
	s.Go("g1:retry", func() {
		cl := world.NewClient(s, n2)
		for v := range victims {
			for _, op := range victims[v] {
				res := cl.DiskPut(op.key.kind, op.key.hash, op.val.Size(), bytes.NewReader(op.val.Data))
				if !res.OK {
					if roomy {
						s.Violate("C08.retry", "disk.Put/"+op.key.kind.String(), "repeating the interrupted upload failed: %s %s", res.Code, res.Err)
					}
					continue
				}
				got := cl.DiskGet(op.key.kind, op.key.hash, op.val.Size(), 0, false, world.FullRead)
				if roomy && (!got.OK || !bytes.Equal(got.Data, op.val.Data)) {
					s.Violate("C08.retry", "disk.Get/"+op.key.kind.String(), "repeated upload does not read back: %s", got)
				}
			}
		}
	})
	s.Run()
	s.Drain()
	nv = len(s.Violations)
	world.Quiescence(s, n2, world.QuiescenceOpts{})
	for i := nv; i < len(s.Violations); i++ {
		s.Violations[i].Clause = "C08.post/" + s.Violations[i].Clause
	}
	return
}

// verifyKey reads one key on every path, size known and unknown.
func verifyKey(s *sim.Sim, cl *world.Client, k *crashKey, roomy bool, cfg world.NodeCfg, wrote string) {
	type rd struct {
		name string
		res  world.Res
	}
	var reads []rd
	if k.kind == cache.CAS {
		var content []byte
		for _, v := range k.vals {
			content = v
		}
		n := int64(len(content))
		reads = append(reads,
			rd{"http.GET", cl.HTTPGet("/cas/"+k.hash, false, world.FullRead)},
			rd{"disk.Get(size)", cl.DiskGet(cache.CAS, k.hash, n, 0, false, world.FullRead)},
			rd{"disk.Get(-1)", cl.DiskGet(cache.CAS, k.hash, -1, 0, false, world.FullRead)},
			rd{"disk.GetZstd(size)", cl.DiskGet(cache.CAS, k.hash, n, 0, true, world.FullRead)},
			rd{"http.GET+zstd", cl.HTTPGet("/cas/"+k.hash, true, world.FullRead)},
			rd{"ByteStream.Read", cl.BSRead(world.ReadName("", k.hash, n, false), 0, 0, false, world.FullRead)},
		)
		hits := 0
		for _, x := range reads {
			if x.res.Found && x.res.OK {
				hits++
				if !bytes.Equal(x.res.Data, content) {
					what := "wrong-bytes"
					for _, bad := range k.sentBad {
						if k.flight && bytes.HasPrefix(bad, x.res.Data) {
							// the bytes, as far as they got, of an upload in flight at the kill
							// that did not match its digest and would have been rejected
							what = "unverified-inflight-upload"
						}
					}
					if k.flight && len(x.res.Data) < len(content) && bytes.HasPrefix(content, x.res.Data) {
						what = "torn-inflight-prefix" // the file of an upload that was in flight at the kill, as far as it got
						if len(k.acked) > 0 {
							what = "torn-inflight-reupload" // ... of a blob that was already stored and acknowledged
						}
					}
					s.Violate("C08.read-mismatch", "cas/"+x.name+"/"+what+"/wrote="+wrote, "after kill+restart a read of CAS %s via %s returned %d bytes that do not match the digest (blob has %d bytes; acked=%v in-flight=%v)", short(k.hash), x.name, len(x.res.Data), n, len(k.acked) > 0, k.flight)
				}
			} else if x.res.Found && len(x.res.Data) > 0 && x.name != "disk.GetZstd(size)" && x.name != "http.GET+zstd" {
				if !bytes.HasPrefix(content, x.res.Data) {
					s.Violate("C08.read-mismatch", "cas/"+x.name+"/wrote="+wrote, "bytes delivered before an error are not a prefix of the blob")
				}
			}
		}
		if len(k.acked) > 0 && roomy && hits != len(reads) {
			var bad []string
			for _, x := range reads {
				if !(x.res.Found && x.res.OK) {
					bad = append(bad, x.name+":"+x.res.Code)
				}
			}
			site := "cas"
			if k.flight {
				site = "cas/reupload-in-flight" // a second upload of the same blob was in flight at the kill
			}
			s.Violate("C08.acked-kept", site, "CAS blob %s was acknowledged before the kill but is not served after the restart via %v", short(k.hash), bad)
		}
		return
	}
	// AC / RAW
	path := ""
	if !cfg.ValidateAC && k.kind == cache.RAW {
		path = "/ac/" + k.hash
	}
	reads = append(reads, rd{"disk.Get(-1)", cl.DiskGet(k.kind, k.hash, -1, 0, false, world.FullRead)})
	if path != "" {
		reads = append(reads, rd{"http.GET", cl.HTTPGet(path, false, world.FullRead)})
	}
	for _, x := range reads {
		if x.res.Found && x.res.OK {
			id := world.HashOf(x.res.Data)
			if !k.acked[id] && !k.flying[id] && !k.fetched[id] {
				what := "wrong-bytes"
				for fid := range k.flying {
					if v := k.vals[fid]; len(x.res.Data) < len(v) && bytes.HasPrefix(v, x.res.Data) {
						what = "torn-inflight-prefix"
					}
				}
				s.Violate("C08.read-mismatch", k.kind.String()+"/"+x.name+"/"+what, "after kill+restart a read of %s %s via %s returned %d bytes that are not byte-identical to any completed upload (acked=%v in-flight=%v)", k.kind, short(k.hash), x.name, len(x.res.Data), len(k.acked) > 0, k.flight)
			}
		} else if len(k.acked) > 0 && roomy && !(x.res.Found && x.res.OK) {
			site := k.kind.String()
			if k.flight {
				site += "/overwrite-in-flight"
			}
			s.Violate("C08.acked-kept", site, "%s %s was acknowledged before the kill but is not served after the restart via %s: %s", k.kind, short(k.hash), x.name, x.res)
		}
	}
}

var _ = filepath.Join
