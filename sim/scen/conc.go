package scen

import (
	"bytes"
	"fmt"
	"os"
	"path/filepath"
	"sort"
	"strings"

	"verifsim/fmtv2"

	"verifsim/sim"
	"verifsim/world"

	"github.com/anishathalye/porcupine"
	"github.com/buchgr/bazel-remote/v2/cache"
	pb "github.com/buchgr/bazel-remote/v2/genproto/build/bazel/remote/execution/v2"
)

// conc — scenario family S2: 2..5 clients issue operations on a few shared
// keys through the disk API while the scheduler decides every interleaving at
// lock boundaries and file-system steps; optional tight cache (evictions),
// remover starved or eager, failing uploads, readers that pause mid-stream.
func init() { Register("conc", conc) }

type histOp struct {
	client int
	key    string // "cas/<hash>" ...
	write  bool
	val    string // value id: hash of the content
	size   int64
	ok     bool // write acknowledged / read hit
	miss   bool
	call   int
	ret    int
	via    int // writes: 0 disk.Put, 1 HTTP PUT, 2 ByteStream.Write (asks Contains first)
}

type regIn struct {
	write bool
	val   string
}
type regOut struct {
	miss bool
	val  string
	ok   bool
}

func drawCfg(r sim.Rand, tight bool) world.NodeCfg {
	cfg := world.NodeCfg{Storage: "zstd", Zstd: "go", ValidateAC: true, DepsCheck: true}
	// buggify knobs of the harness seams (per run)
	if s := sim.Cur(); s != nil {
		if r.Chance(1, 3) {
			s.Knobs["rd.eof-with-data"] = 1
		}
		if r.Chance(1, 6) {
			s.Knobs["rd.max-read"] = []int{1000, 7, 65536}[r.Intn(3)]
		}
	}
	if r.Chance(1, 3) {
		cfg.Storage = "uncompressed"
	}
	if r.Chance(1, 3) {
		cfg.Zstd = "cgo"
	}
	if r.Chance(1, 4) {
		cfg.Metrics = true
	}
	cfg.MaxSize = 256 << 20
	if tight {
		cfg.MaxSize = []int64{24 << 10, 16 << 10, 40 << 10, 64 << 10, 12 << 10}[r.Intn(5)]
	}
	return cfg
}

func drawPolicy(r sim.Rand) sim.Policy {
	p := sim.Policy{Sticky: []int{6, 0, 4, 7}[r.Intn(4)]}
	switch r.Weighted(6, 2, 1) {
	case 1:
		p.StarveRemover = true
	case 2:
		p.RemoverFirst = true
	}
	return p
}

func conc(c *Ctx) {
	r := c.R
	s := c.S
	tight := c.Opt("tight", "") == "1" || (c.Opt("tight", "") == "" && r.Chance(1, 2))
	if c.Opt("ow", "") == "1" {
		tight = true
	}
	cfg := drawCfg(r, tight)
	if hl := c.Opt("hard", ""); hl != "" {
		cfg.HardLimit = cfg.MaxSize + int64(r.Intn(3))*8192
	}
	// ow=1: overwrite focus. One AC key whose values differ in their number of
	// 4 KiB blocks, held locally and (another value) by the backend, a cache of
	// two to five blocks, large CAS uploads that keep reservations while they
	// are parked: overwrites and proxy commits meet reservations at the limit.
	ow := c.Opt("ow", "") == "1"
	if ow {
		cfg.MaxSize = []int64{12288, 16384, 20480, 8192}[r.Intn(4)]
	}
	s.Policy = drawPolicy(r)
	if ow && r.Chance(1, 2) {
		// overwrites race readers hardest when replaced files disappear at
		// once and requests are preempted at every opportunity
		s.Policy = sim.Policy{Sticky: 0, RemoverFirst: true}
	}
	c.Logf("cfg %+v policy %+v", cfg, s.Policy)
	dir := c.Dir("f")
	var n *world.Node
	s.StepHook = func(s *sim.Sim) {
		if n != nil && n.Cache != nil {
			world.StepInvariants(s, n, "")
		}
	}
	// Key universe: small blobs so that a tight cache holds two or three.
	nCas := 1 + r.Intn(3)
	var casBlobs []*world.Blob
	sizes := []int64{3000, 100, 4096, 5000, 9000, 1}
	if ow {
		nCas, sizes = 1+r.Intn(2), []int64{5000, 9000, 4097}
	}
	for i := 0; i < nCas; i++ {
		casBlobs = append(casBlobs, world.Make(world.BlobID{Kind: r.Intn(4), Seed: 100 + i, Size: sizes[r.Intn(len(sizes))]}))
	}
	// Optionally the directory already holds corrupt cas.v2 files for some of
	// the keys (what a crash or a bad disk leaves): the loader indexes them by
	// name, readers discover the damage and drop the entry while others use it.
	corruptKey := map[string]bool{}
	const corruptSuffix = "Corrupt7"
	if c.Opt("corrupt", "") == "1" || (c.Opt("corrupt", "") == "" && r.Chance(1, 3)) {
		for _, b := range casBlobs {
			if !r.Chance(2, 3) {
				continue
			}
			img := fmtv2.Encode(b.Data, fmtv2.WriteOpts{})
			switch r.Intn(4) {
			case 0:
				img = img[:len(img)*2/3]
			case 1:
				for i := 29; i < 45 && i < len(img); i++ {
					img[i] = 0
				}
			case 2:
				img[0] ^= 0xff
			default:
				if len(img) > 45 {
					img = img[:45]
				}
			}
			p := filepath.Join(dir, fmt.Sprintf("cas.v2/%s/%s-%d-%s", b.Hash[:2], b.Hash, b.Size(), corruptSuffix))
			_ = os.MkdirAll(filepath.Dir(p), 0o755)
			_ = os.WriteFile(p, img, 0o644)
			corruptKey["cas/"+b.Hash] = true
			c.Logf("corrupt file on disk for %s", b.ID)
			s.Fault("disk.corrupt-file")
		}
	}
	// Optionally some blobs are already on disk in the *other* storage format
	// (the directory was filled under the other storage mode): re-uploads
	// replace them with files of the current format while readers are between
	// their lookup and their open.
	preStored := map[string][]byte{}
	if c.Opt("prestored", "") == "1" || (c.Opt("prestored", "") == "" && r.Chance(1, 3)) {
		for _, b := range casBlobs {
			if corruptKey["cas/"+b.Hash] || !r.Chance(1, 2) {
				continue
			}
			var p string
			var img []byte
			if cfg.Storage == "zstd" {
				p = filepath.Join(dir, fmt.Sprintf("cas.v2/%s/%s-%s.v1", b.Hash[:2], b.Hash, "Legacy3"))
				img = b.Data
			} else {
				p = filepath.Join(dir, fmt.Sprintf("cas.v2/%s/%s-%d-%s", b.Hash[:2], b.Hash, b.Size(), "Other3"))
				img = fmtv2.Encode(b.Data, fmtv2.WriteOpts{})
			}
			_ = os.MkdirAll(filepath.Dir(p), 0o755)
			_ = os.WriteFile(p, img, 0o644)
			preStored["cas/"+b.Hash] = b.Data
			c.Logf("%s already stored in the other format", b.ID)
		}
	}
	// Optionally a backend (b0) that already holds some of the keys: a local
	// miss then fetches while other requests write the same keys.
	var proxy cache.Proxy
	var st *world.Store
	seeded := map[string][]byte{} // key -> value held by the backend from the start
	nAc := 1 + r.Intn(2)
	if ow {
		nAc = 1
	}
	acKeys := make([]string, nAc)
	for i := range acKeys {
		acKeys[i] = world.HashOf([]byte(fmt.Sprintf("ackey%d", i)))
	}
	if ow || c.Opt("backend", "") == "1" || (c.Opt("backend", "") == "" && r.Chance(1, 3)) {
		st = world.NewStore(s, cfg.Storage == "zstd")
		if r.Chance(1, 2) {
			st.BodyParks = []int{46, 100, 3000}
		}
		proxy = &world.DirectProxy{St: st}
		for _, b := range casBlobs {
			if r.Chance(1, 2) {
				obj := b.Data
				if st.V2 {
					obj = fmtv2.Encode(b.Data, fmtv2.WriteOpts{})
				}
				st.Objects[world.ObjectName(cache.CAS, b.Hash, st.V2)] = obj
				seeded["cas/"+b.Hash] = b.Data
			}
		}
		for i, k := range acKeys {
			if ow || r.Chance(1, 2) {
				v := world.Make(world.BlobID{Kind: 0, Seed: 4900 + i, Size: []int64{300, 5000, 20000}[r.Intn(3)]})
				if ow {
					v = world.Make(world.BlobID{Kind: 0, Seed: 4900 + i, Size: []int64{5000, 9000, 4097}[r.Intn(3)]})
				}
				st.Objects[world.ObjectName(cache.AC, k, st.V2)] = v.Data
				seeded["ac/"+k] = v.Data
			}
		}
		c.Logf("backend b0 holds %d keys", len(seeded))
	}
	n = c.Start("g0:", dir, cfg, proxy)
	if n.Err != nil {
		s.Violate("C09.starts", "g0:", "start-up failed: %v", n.Err)
		return
	}
	nClients := 2 + r.Intn(4)
	var hist []histOp
	valContent := map[string][]byte{}  // value id -> content (AC values)
	intactStarted := map[string]bool{} // CAS keys of which an intact copy was stored or offered (by anyone, possibly still in flight)
	for k := range preStored {
		intactStarted[k] = true
	}
	for k := range seeded {
		intactStarted[k] = true
	}
	for k := range corruptKey {
		intactStarted[k] = true // indexed at start-up: the exists-check answers (recorded finding for C07)
	}
	for k, v := range preStored {
		if _, dup := seeded[k]; !dup {
			hist = append(hist, histOp{client: 98, key: k, write: true, val: world.HashOf(v), size: int64(len(v)), ok: true, call: 0, ret: 0, via: 0})
		}
	}
	for k, v := range seeded {
		valContent[world.HashOf(v)] = v
		hist = append(hist, histOp{client: 99, key: k, write: true, val: world.HashOf(v), size: int64(len(v)), ok: true, call: 0, ret: 0, via: 0})
	}
	acSeq := 0
	type planned struct {
		kind  string
		run   func(cl *world.Client, ci int)
		descr string
	}
	plans := make([][]planned, nClients)
	var histMu = make(chan struct{}, 1)
	add := func(h histOp) {
		histMu <- struct{}{}
		hist = append(hist, h)
		<-histMu
	}
	for ci := 0; ci < nClients; ci++ {
		nOps := 2 + r.Intn(5)
		for j := 0; j < nOps; j++ {
			opKind := r.Weighted(4, 4, 3, 3, 2, 2, 2, 1)
			if ow {
				opKind = []int{0, 1, 4, 4, 0, 1, 4, 2}[r.Intn(8)]
			}
			switch opKind {
			case 0: // CAS put (maybe corrupted or aborted)
				b := casBlobs[r.Intn(len(casBlobs))]
				fault := r.Weighted(8, 1, 1, 1)
				data := b.Data
				abortAt := -1
				switch fault {
				case 1:
					data = append([]byte(nil), b.Data...)
					data[r.Intn(len(data))] ^= 0x40
				case 2:
					if len(data) > 1 {
						data = data[:len(data)-1]
					} else {
						fault = 0
					}
				case 3:
					abortAt = r.Intn(len(data))
				}
				cuts := world.DrawCuts(r, len(data))
				via := r.Weighted(3, 1, 1) // disk.Put, HTTP PUT, ByteStream.Write
				plans[ci] = append(plans[ci], planned{descr: fmt.Sprintf("put cas %s via=%d fault=%d cuts=%v", b.ID, via, fault, cuts), run: func(cl *world.Client, ci int) {
					if fault != 0 {
						s.Fault(fmt.Sprintf("upload.corrupt%d", fault))
					} else {
						intactStarted["cas/"+b.Hash] = true
					}
					var res world.Res
					switch via {
					case 1:
						res, _ = cl.HTTP(world.HTTPReq{Method: "PUT", Path: "/cas/" + b.Hash, CLen: b.Size(), Body: world.LimitBody(world.NewParkReader(s, data, cuts, abortAt), b.Size()), FailAt: -1, ParkAt: -1})
					case 2:
						name := world.WriteName("", fmt.Sprintf("c%d", ci), b.Hash, b.Size(), false, "")
						var endErr error
						d2 := data
						if abortAt >= 0 {
							d2, endErr = data[:abortAt], world.ErrInjected
						}
						res, _ = cl.BSWrite(world.SplitMsgs(name, d2, cuts, abortAt < 0, true), endErr)
					default:
						res = cl.DiskPut(cache.CAS, b.Hash, b.Size(), world.NewParkReader(s, data, cuts, abortAt))
					}
					s.Note("c%d put cas %s via %d -> %s", ci, b.ID, via, res.Code)
					if fault != 0 && res.OK {
						// an early OK is legitimate when the digest may already be present
						if intactStarted["cas/"+b.Hash] {
							s.Probe("damaged_upload_to_possibly_present_digest_acked")
						} else {
							s.Violate("C01.reject", "disk.Put", "corrupted upload (fault %d) of %s acknowledged although no intact copy was ever offered", fault, b.ID)
						}
					}
					if fault == 0 && !res.OK {
						if tight {
							s.Probe("refused_in_tight_cache")
						} else {
							s.Violate("C01.accept", "disk.Put", "well-formed upload of %s refused: %s %s", b.ID, res.Code, res.Err)
						}
					}
					add(histOp{client: ci, key: "cas/" + b.Hash, write: true, val: b.Hash, size: b.Size(), ok: res.OK, call: res.Call, ret: res.Ret, via: via})
				}})
			case 1: // AC put with a unique value
				k := acKeys[r.Intn(len(acKeys))]
				acSeq++
				v := world.Make(world.BlobID{Kind: 0, Seed: 5000 + acSeq, Size: []int64{200, 64, 4097, 6000}[r.Intn(4)]})
				valContent[v.Hash] = v.Data
				cuts := world.DrawCuts(r, len(v.Data))
				plans[ci] = append(plans[ci], planned{descr: fmt.Sprintf("put ac %s <- %s", k[:8], v.ID), run: func(cl *world.Client, ci int) {
					res := cl.DiskPut(cache.AC, k, v.Size(), world.NewParkReader(s, v.Data, cuts, -1))
					s.Note("c%d put ac %s %s -> %s", ci, k[:8], v.ID, res.Code)
					if !res.OK {
						if tight {
							s.Probe("refused_in_tight_cache")
						} else {
							s.Violate("C01.accept", "disk.Put", "well-formed AC upload refused: %s %s", res.Code, res.Err)
						}
					}
					add(histOp{client: ci, key: "ac/" + k, write: true, val: v.Hash, size: v.Size(), ok: res.OK, call: res.Call, ret: res.Ret})
				}})
			case 2, 3: // CAS get
				b := casBlobs[r.Intn(len(casBlobs))]
				z := r.Chance(1, 3)
				size := b.Size()
				if r.Chance(1, 3) {
					size = -1
				}
				ro := world.FullRead
				if r.Chance(1, 2) {
					ro.ParkAt = r.Intn(int(b.Size()) + 1)
				}
				gvia := r.Weighted(3, 1, 1) // disk.Get, HTTP GET, ByteStream.Read
				plans[ci] = append(plans[ci], planned{descr: fmt.Sprintf("get cas %s via=%d z=%v size=%d park=%d", b.ID, gvia, z, size, ro.ParkAt), run: func(cl *world.Client, ci int) {
					var res world.Res
					switch gvia {
					case 1:
						res = cl.HTTPGet("/cas/"+b.Hash, z, ro)
						if res.Found && res.OK && !z {
							res.Size = b.Size() // Content-Length is judged by C02; here only the bytes
						} else if res.Found && res.OK {
							res.Size = b.Size()
						}
					case 2:
						res = cl.BSRead(world.ReadName("", b.Hash, b.Size(), z), 0, 0, z, ro)
						if res.Found && res.OK {
							res.Size = b.Size()
						}
					default:
						res = cl.DiskGet(cache.CAS, b.Hash, size, 0, z, ro)
					}
					s.Note("c%d get cas %s via %d -> %s found=%v n=%d", ci, b.ID, gvia, res.Code, res.Found, len(res.Data))
					if res.Found && res.OK {
						if !bytes.Equal(res.Data, b.Data) {
							s.Violate("C07.whole", "disk.Get/cas", "read of %s returned %d bytes that are not the blob (%d bytes)", b.ID, len(res.Data), len(b.Data))
							s.Violate("C02.exact", "conc/cas", "a successful read of %s returned %d bytes that are not the blob (%d bytes)", b.ID, len(res.Data), len(b.Data))
						}
						if res.Size != b.Size() {
							s.Violate("C07.whole", "disk.Get/cas", "read of %s reported size %d", b.ID, res.Size)
						}
					} else if res.Found && !res.OK {
						s.Probe("read_error")
						if !z && !bytes.HasPrefix(b.Data, res.Data) {
							s.Violate("C02.prefix", "disk.Get/cas", "bytes delivered before the error are not a prefix of %s", b.ID)
						}
					} else if res.Code != "NotFound" {
						s.Probe("read_error")
					}
					add(histOp{client: ci, key: "cas/" + b.Hash, val: b.Hash, ok: res.Found && res.OK, miss: !res.Found && res.Code == "NotFound", call: res.Call, ret: res.Ret})
				}})
			case 4: // AC get
				k := acKeys[r.Intn(len(acKeys))]
				ro := world.FullRead
				if r.Chance(1, 2) {
					ro.ParkAt = r.Intn(64)
				}
				plans[ci] = append(plans[ci], planned{descr: fmt.Sprintf("get ac %s park=%d", k[:8], ro.ParkAt), run: func(cl *world.Client, ci int) {
					res := cl.DiskGet(cache.AC, k, -1, 0, false, ro)
					vid := ""
					if res.Found && res.OK {
						vid = world.HashOf(res.Data)
						want, known := valContent[vid]
						if !known || !bytes.Equal(want, res.Data) {
							s.Violate("C07.whole", "disk.Get/ac", "AC read of %s returned %d bytes that equal no uploaded value", k[:8], len(res.Data))
						} else if res.Size != int64(len(want)) {
							s.Violate("C07.whole", "disk.Get/ac", "AC read of %s reported size %d for a %d byte value", k[:8], res.Size, len(want))
						}
					} else if res.Code != "NotFound" {
						s.Probe("read_error")
					}
					s.Note("c%d get ac %s -> %s %s", ci, k[:8], res.Code, short(vid))
					add(histOp{client: ci, key: "ac/" + k, val: vid, ok: res.Found && res.OK, miss: !res.Found && res.Code == "NotFound", call: res.Call, ret: res.Ret})
				}})
			case 5: // contains / find missing
				b := casBlobs[r.Intn(len(casBlobs))]
				plans[ci] = append(plans[ci], planned{descr: "contains cas " + b.ID.String(), run: func(cl *world.Client, ci int) {
					res := cl.DiskContains(cache.CAS, b.Hash, b.Size())
					s.Note("c%d contains %s -> %v", ci, b.ID, res.Found)
					if res.Found && res.Size != b.Size() {
						s.Violate("C07.whole", "disk.Contains", "contains reported size %d for %s", res.Size, b.ID)
					}
					if !corruptKey["cas/"+b.Hash] {
						add(histOp{client: ci, key: "cas/" + b.Hash, val: b.Hash, ok: res.Found, miss: !res.Found, call: res.Call, ret: res.Ret})
					}
				}})
			case 7: // SpliceBlob over blobs of the universe (present or not; in a tight cache the result often exceeds max_size)
				var parts []*world.Blob
				for k := 2 + r.Intn(2); k > 0; k-- {
					parts = append(parts, casBlobs[r.Intn(len(casBlobs))])
				}
				var whole []byte
				var ds []*pb.Digest
				descr := "splice"
				for _, b := range parts {
					whole = append(whole, b.Data...)
					ds = append(ds, world.Digest(b.Hash, b.Size()))
					descr += " " + b.ID.String()
				}
				var bd *pb.Digest
				if r.Chance(2, 3) {
					bd = world.Digest(world.HashOf(whole), int64(len(whole)))
				}
				plans[ci] = append(plans[ci], planned{descr: descr, run: func(cl *world.Client, ci int) {
					res, got := cl.Splice(bd, ds)
					s.Note("c%d %s -> %s", ci, descr, res.Code)
					if res.OK && got != nil && (got.Hash != world.HashOf(whole) || got.SizeBytes != int64(len(whole))) {
						s.Violate("C01.ack-match", "SpliceBlob", "SpliceBlob answered digest %s/%d for a %d byte concatenation", short(got.Hash), got.SizeBytes, len(whole))
					}
					if !res.OK {
						s.Probe("splice_refused_or_chunk_missing")
					} else {
						s.Probe("splice_ok")
					}
				}})
			case 6: // pressure: an unrelated blob
				acSeq++
				p := world.Make(world.BlobID{Kind: 0, Seed: 9000 + acSeq, Size: []int64{4000, 8000, 12000}[r.Intn(3)]})
				plans[ci] = append(plans[ci], planned{descr: "put pressure " + p.ID.String(), run: func(cl *world.Client, ci int) {
					res := cl.DiskPut(cache.CAS, p.Hash, p.Size(), bytes.NewReader(p.Data))
					s.Note("c%d pressure %s -> %s", ci, p.ID, res.Code)
				}})
			}
		}
	}
	var labels []string
	for ci := 0; ci < nClients; ci++ {
		ci := ci
		for _, p := range plans[ci] {
			c.Logf("c%d: %s", ci, p.descr)
		}
		l := fmt.Sprintf("g0:c%d", ci)
		labels = append(labels, l)
		s.Go(l, func() {
			cl := world.NewClient(s, n)
			for _, p := range plans[ci] {
				p.run(cl, ci)
				c.Res.Ops++
			}
		})
	}
	res := c.RunTasks("C07.deadlock")
	c.CheckPanics(labels...)
	if res == sim.Capped {
		return
	}
	if res == sim.Hung {
		return
	}
	s.Policy = sim.Policy{}
	if d := s.Drain(); d != sim.Quiesced {
		s.Violate("C07.progress", "drain", "background work did not drain: %d", d)
		return
	}
	untouched := map[string]bool{} // corrupt files nobody read are still indexed as they are
	for _, e := range world.Observe(n).Index {
		if e.Random == corruptSuffix {
			untouched[e.Key] = true
		}
	}
	world.Quiescence(s, n, world.QuiescenceOpts{InFlight: untouched})
	if fds := world.OpenFDs(n.Dir); len(fds) > 0 {
		s.Violate("C14.fds", "fd", "open descriptors into the cache directory with no request in flight: %v", fds)
	}
	c.Res.StateHash = StateHash(world.Observe(n))
	checkRegisters(c, hist, !tight, corruptKey)
}

func short(h string) string {
	if len(h) > 8 {
		return h[:8]
	}
	return h
}

// checkRegisters feeds the per-key histories to porcupine against the weak
// register model of C07: a read may return any value whose upload was not
// wholly after the read; a miss is legal only if no acknowledged upload
// completed before the lookup started (roomy caches only: in tight ones
// eviction excuses a miss).
func checkRegisters(c *Ctx, hist []histOp, roomy bool, corruptKey map[string]bool) {
	byKey := map[string][]histOp{}
	for _, h := range hist {
		byKey[h.key] = append(byKey[h.key], h)
	}
	// values of uploads that reported failure: "the complete bytes of one
	// upload to that key" may still become visible (with a backend the blob is
	// handed over before the local commit can be refused), so a read may
	// return them; they never count as acknowledged.
	failedVals := map[string]bool{}
	for _, h := range hist {
		if h.write && !h.ok {
			failedVals[h.key+"|"+h.val] = true
		}
	}
	keys := make([]string, 0, len(byKey))
	for k := range byKey {
		keys = append(keys, k)
	}
	sort.Strings(keys)
	curKey := ""
	model := porcupine.Model{
		Init: func() interface{} { return "" }, // state: sorted, comma separated value ids written; leading "!" = something acknowledged
		Step: func(state, input, output interface{}) (bool, interface{}) {
			st := state.(string)
			in := input.(regIn)
			out := output.(regOut)
			if in.write {
				// an unacknowledged (failed) write may still have become visible?
				// No: a failed upload stores nothing, so it adds nothing.
				if !out.ok {
					return true, st
				}
				return true, addVal(st, in.val)
			}
			if out.miss {
				if roomy && st != "" {
					return false, st
				}
				return true, st
			}
			if !out.ok {
				return true, st // read error: no constraint
			}
			return hasVal(st, out.val) || failedVals[curKey+"|"+out.val], st
		},
		Equal: func(a, b interface{}) bool { return a.(string) == b.(string) },
		DescribeOperation: func(in, out interface{}) string {
			return fmt.Sprintf("%+v -> %+v", in, out)
		},
	}
	for _, k := range keys {
		curKey = k
		ops := byKey[k]
		if len(ops) > 60 {
			ops = ops[:60]
		}
		var pops []porcupine.Operation
		for i, h := range ops {
			// Stamps are scheduler step numbers; an operation spans [call, ret].
			// porcupine needs call < ret and treats equal stamps as ordered by
			// position, so scale and make returns strictly later.
			pops = append(pops, porcupine.Operation{
				ClientId: h.client,
				Input:    regIn{write: h.write, val: h.val},
				Output:   regOut{miss: h.miss, val: h.val, ok: h.ok},
				Call:     int64(h.call)*2 + 1,
				Return:   int64(h.ret)*2 + 2,
			})
			_ = i
		}
		if porcupine.CheckOperations(model, pops) {
			continue
		}
		var d []string
		for _, h := range ops {
			d = append(d, fmt.Sprintf("c%d %s %s ok=%v miss=%v [%d,%d]", h.client, map[bool]string{true: "W", false: "R"}[h.write], short(h.val), h.ok, h.miss, h.call, h.ret))
		}
		site := k[:strings.IndexByte(k, '/')]
		if corruptKey[k] {
			site += "/corrupt-file-on-disk" // the key had a corrupt file on disk when the instance started
			// is every miss preceded only by uploads acknowledged on a path
			// that asks Contains first (and so may have skipped the upload)?
			onlyEarlyExit := true
			for _, rd := range ops {
				if rd.write || !rd.miss {
					continue
				}
				for _, h := range ops {
					if h.write && h.ok && h.ret < rd.call && h.via != 2 {
						onlyEarlyExit = false
					}
				}
			}
			if onlyEarlyExit {
				site += "/acked-by-exists-check-only" // every acknowledged upload went through a path that asks Contains first
			}
		}
		c.S.Violate("C07.weak-register", site, "history of key %s is not explained by the weak register model (roomy=%v): %s", short(k), roomy, strings.Join(d, "; "))
	}
}

func addVal(st, v string) string {
	if hasVal(st, v) {
		return st
	}
	vs := strings.Split(st, ",")
	if st == "" {
		vs = nil
	}
	vs = append(vs, v)
	sort.Strings(vs)
	return strings.Join(vs, ",")
}

func hasVal(st, v string) bool {
	for _, x := range strings.Split(st, ",") {
		if x == v {
			return true
		}
	}
	return false
}
