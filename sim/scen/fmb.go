package scen

import (
	"bytes"
	"fmt"
	"strings"

	"verifsim/fmtv2"
	"verifsim/sim"
	"verifsim/world"

	"github.com/buchgr/bazel-remote/v2/cache"

	pb "github.com/buchgr/bazel-remote/v2/genproto/build/bazel/remote/execution/v2"
)

// fmb — C10: FindMissingBlobs over request lists of length 0..300 (multiples
// of the internal batch of 20 +-1 over-sampled) with duplicates, size-
// mismatched and empty digests, every partition into local / backend-only /
// absent, with and without a backend, the scheduler choosing the completion
// order of the backend lookups, and a second client uploading other keys
// while the call runs.
func init() { Register("fmb", fmbScen) }

func fmbScen(c *Ctx) {
	r, s := c.R, c.S
	cfg := drawCfg(r, false)
	backend := r.Weighted(3, 3, 2) // 0 none, 1 b0, 2 b1
	if cfg.MaxProxyBlob == 0 && backend != 0 && r.Chance(1, 3) {
		cfg.MaxProxyBlob = []int64{4096, 100}[r.Intn(2)]
	}
	v2 := cfg.Storage == "zstd"
	var st *world.Store
	var proxy cache.Proxy
	switch backend {
	case 1:
		st = world.NewStore(s, v2)
		proxy = &world.DirectProxy{St: st}
	case 2:
		st = world.NewStore(s, v2)
		p, err := world.NewHTTPProxy(st, cfg.Storage, 1, 100)
		if err != nil {
			panic(err)
		}
		proxy = p
	}
	s.Policy = sim.Policy{Sticky: []int{0, 4, 6}[r.Intn(3)]}
	bk := []string{"no-backend", "b0-direct", "b1-httpproxy"}[backend]
	c.Logf("cfg %+v backend=%s policy=%+v", cfg, bk, s.Policy)
	var n *world.Node
	s.StepHook = func(s *sim.Sim) {
		if n != nil && n.Cache != nil {
			world.StepInvariants(s, n, "")
		}
	}
	n = c.Start("g0:", c.Dir("f"), cfg, proxy)
	if n.Err != nil {
		s.Violate("C09.starts", "g0:", "start-up failed: %v", n.Err)
		return
	}
	maxProxy := cfg.MaxProxyBlob
	if maxProxy == 0 {
		maxProxy = world.MaxInt64
	}
	// the proxy tells the size of an object only in these configurations
	proxyKnowsSize := backend == 1 || (backend == 2 && !v2)
	type dg struct {
		d       *pb.Digest
		present bool
		judge   bool
		what    string
	}
	var pool []dg
	var local []*world.Blob
	nPool := 3 + r.Intn(8)
	for i := 0; i < nPool; i++ {
		b := world.Make(world.BlobID{Kind: r.Intn(3), Seed: 11000 + i, Size: []int64{100, 3000, 4097, 5000, 64}[r.Intn(5)]})
		where := r.Weighted(4, 3, 3) // local, backend-only, absent
		if backend == 0 && where == 1 {
			where = 2
		}
		switch where {
		case 0:
			local = append(local, b)
			pool = append(pool, dg{world.Digest(b.Hash, b.Size()), true, true, "local"})
			// with a backend the blob is written through, and the backend is
			// asked about (hash, n+1): only judged when the proxy can tell sizes
			pool = append(pool, dg{world.Digest(b.Hash, b.Size()+1), false, backend == 0 || proxyKnowsSize, "local-wrong-size"})
		case 1:
			obj := b.Data
			if v2 {
				obj = encodeV2(b.Data)
			}
			st.Objects[world.ObjectName(cache.CAS, b.Hash, v2)] = obj
			over := b.Size() > maxProxy
			pool = append(pool, dg{world.Digest(b.Hash, b.Size()), !over, true, map[bool]string{false: "backend-only", true: "backend-oversize"}[over]})
			pool = append(pool, dg{world.Digest(b.Hash, b.Size()+1), false, proxyKnowsSize || b.Size()+1 > maxProxy, "backend-wrong-size"})
		default:
			pool = append(pool, dg{world.Digest(b.Hash, b.Size()), false, true, "absent"})
		}
	}
	pool = append(pool, dg{world.Digest(world.EmptySha256, 0), true, true, "empty"})
	// the one hash a server special-cases, with a size that is not the empty
	// blob's: such a blob cannot exist, so it is absent (added after seeded
	// change C10d)
	pool = append(pool, dg{world.Digest(world.EmptySha256, []int64{1, 7, 4096}[r.Intn(3)]), false, true, "empty-hash-nonzero-size"})
	nCalls := 1 + r.Intn(4)
	type call struct{ idx []int }
	var calls []call
	for i := 0; i < nCalls; i++ {
		ln := []int{1, 0, 5, 19, 20, 21, 40, 41, 100, 300, 39}[r.Weighted(4, 1, 4, 2, 2, 2, 1, 1, 1, 1, 1)]
		var cl call
		for j := 0; j < ln; j++ {
			cl.idx = append(cl.idx, r.Intn(len(pool)))
		}
		calls = append(calls, cl)
		c.Logf("call %d: %d digests", i, ln)
	}
	// phase 1: local blobs
	s.Go("g0:setup", func() {
		cl := world.NewClient(s, n)
		for _, b := range local {
			if res := cl.DiskPut(cache.CAS, b.Hash, b.Size(), bytes.NewReader(b.Data)); !res.OK {
				s.Violate("C01.accept", "disk.Put", "upload refused: %s", res.Err)
			}
		}
	})
	c.RunTasks("C14.returns")
	s.Drain()
	// phase 2: the calls, with unrelated uploads running concurrently
	noise := r.Chance(1, 2)
	nNoise := 2 + r.Intn(3)
	s.Go("g0:c0", func() {
		cl := world.NewClient(s, n)
		for ci, call := range calls {
			var ds []*pb.Digest
			for _, i := range call.idx {
				ds = append(ds, pool[i].d)
			}
			res, missing := cl.FindMissing(ds)
			c.Res.Ops++
			site := bk
			if !res.OK {
				s.Violate("C10.exact", site, "FindMissingBlobs failed: %s %s", res.Code, res.Err)
				continue
			}
			// compare as sequences, skipping digests that are not judged
			var want, got []string
			skip := map[string]bool{}
			for _, i := range call.idx {
				if !pool[i].judge {
					skip[dkey(pool[i].d)] = true
				}
			}
			for _, i := range call.idx {
				if !pool[i].present && !skip[dkey(pool[i].d)] {
					want = append(want, dkey(pool[i].d))
				}
			}
			for _, d := range missing {
				if !skip[dkey(d)] {
					got = append(got, dkey(d))
				}
			}
			s.Note("call %d: %d digests -> %d missing", ci, len(ds), len(missing))
			c.Cell("%s|len=%d", bk, lenClass(len(ds)))
			if strings.Join(want, ",") == strings.Join(got, ",") {
				continue
			}
			// classify
			wantSet, gotSet := map[string]int{}, map[string]int{}
			for _, k := range want {
				wantSet[k]++
			}
			for _, k := range got {
				gotSet[k]++
			}
			reported := false
			for _, i := range call.idx {
				k := dkey(pool[i].d)
				if skip[k] {
					continue
				}
				if pool[i].present && gotSet[k] > 0 {
					if pool[i].what == "empty" {
						s.Violate("C10.empty-blob", site, "the empty blob is reported missing")
					} else {
						s.Violate("C10.no-false-missing", site+"/"+pool[i].what, "digest %s (%s) was present throughout the call but is reported missing", short(k), pool[i].what)
					}
					reported = true
					break
				}
				if !pool[i].present && gotSet[k] < wantSet[k] {
					clause := "C10.no-false-present"
					if pool[i].what == "backend-oversize" {
						clause = "C10.proxy-limit"
					}
					s.Violate(clause, site+"/"+pool[i].what, "digest %s (%s) is not in the cache with the stated size but is not reported missing (%d of %d occurrences)", short(k), pool[i].what, gotSet[k], wantSet[k])
					reported = true
					break
				}
			}
			if !reported {
				s.Violate("C10.exact", site, "answer is not the request filtered to the absent digests in request order with duplicates preserved: got %d entries, want %d", len(got), len(want))
			}
		}
	})
	if noise {
		s.Go("g0:c1", func() {
			cl := world.NewClient(s, n)
			for i := 0; i < nNoise; i++ {
				b := world.Make(world.BlobID{Kind: 0, Seed: 11500 + i, Size: 2000})
				cl.DiskPut(cache.CAS, b.Hash, b.Size(), world.NewParkReader(s, b.Data, []int{1000}, -1))
			}
		})
	}
	c.RunTasks("C07.deadlock")
	c.CheckPanics("g0:c0", "g0:c1")
	if s.Drain() == sim.Quiesced && !s.Failed() {
		world.Quiescence(s, n, world.QuiescenceOpts{})
	}
}

func dkey(d *pb.Digest) string { return fmt.Sprintf("%s/%d", d.Hash, d.SizeBytes) }

func lenClass(n int) string {
	switch {
	case n == 0:
		return "0"
	case n < 20:
		return "<20"
	case n == 20:
		return "20"
	case n < 40:
		return "21-39"
	case n <= 41:
		return "40-41"
	}
	return ">41"
}

func encodeV2(data []byte) []byte {
	return fmtv2.Encode(data, fmtv2.WriteOpts{})
}
