package scen

import "syscall"

// RealNow returns wall-clock nanoseconds; inside a synctest bubble time.Now is
// the simulated clock, so measurements of cost use the system call directly.
func RealNow() int64 {
	var tv syscall.Timeval
	_ = syscall.Gettimeofday(&tv)
	return int64(tv.Sec)*1e9 + int64(tv.Usec)*1e3
}
