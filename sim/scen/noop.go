package scen

import "verifsim/world"

// noop only boots an instance on an empty directory (cost baseline).
func init() {
	Register("noop", func(c *Ctx) {
		cfg := world.NodeCfg{Storage: "zstd", Zstd: "go", MaxSize: 1 << 20}
		c.Start("g0:", c.Dir("f"), cfg, nil)
	})
}
