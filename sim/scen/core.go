// Package scen holds the scenario families: each draws its plan from the plan
// tape, drives the simulated world and evaluates the oracles.
package scen

import (
	"crypto/sha256"
	"encoding/hex"
	"fmt"
	"os"
	"path/filepath"
	"runtime"
	"sort"
	"strings"

	"verifsim/rt"
	"verifsim/sim"
	"verifsim/world"

	"github.com/buchgr/bazel-remote/v2/cache"
)

type Params = rt.Params
type Result = rt.Result

// Ctx is what a scenario works with.
type Ctx struct {
	S     *sim.Sim
	P     Params
	R     sim.Rand
	Root  string
	Res   *Result
	Nodes []*world.Node
	cells map[string]bool
}

func (c *Ctx) Opt(k, def string) string {
	if v, ok := c.P.Opt[k]; ok {
		return v
	}
	return def
}

func (c *Ctx) Logf(format string, a ...any) {
	if len(c.Res.PlanLog) < 300 {
		c.Res.PlanLog = append(c.Res.PlanLog, fmt.Sprintf(format, a...))
	}
}

// Cell records that a cell of a coverage grid was exercised.
func (c *Ctx) Cell(format string, a ...any) {
	c.cells[fmt.Sprintf(format, a...)] = true
}

func (c *Ctx) Dir(name string) string {
	d := filepath.Join(c.Root, name)
	_ = os.MkdirAll(d, 0o755)
	return d
}

// Start boots a node and runs the scheduler until start-up has finished.
func (c *Ctx) Start(gen, dir string, cfg world.NodeCfg, proxy cache.Proxy) *world.Node {
	n := world.StartNode(c.S, gen, dir, cfg, proxy)
	r := c.S.Run()
	if r != sim.Done {
		c.S.Violate("C09.starts", gen, "start-up did not finish: scheduler result %d, pending %v", r, c.S.PendingTasks())
	}
	if p, st := c.S.TaskPanic(gen + "startup"); p != nil {
		c.S.Violate("C14.panic", gen+"startup", "start-up panicked: %v\n%s", p, st)
	}
	c.Nodes = append(c.Nodes, n)
	return n
}

// RunTasks runs the scheduler until all tasks are done and reports hangs and
// task panics under the given clause prefix.
func (c *Ctx) RunTasks(hangClause string) sim.RunResult {
	r := c.S.Run()
	switch r {
	case sim.Hung:
		if c.S.BlockedHolder() {
			c.S.Violate(hangClause, "blocked-holding-the-cache-mutex", "a request is blocked for ever inside a region that holds the cache mutex; every other request waits for that mutex; pending tasks %v", c.S.PendingTasks())
			return r
		}
		c.S.Violate(hangClause, strings.Join(c.S.PendingTasks(), ","), "requests still open but nothing is runnable (hang/deadlock); pending tasks %v", c.S.PendingTasks())
	case sim.Capped:
		// inconclusive, recorded in Aborted
	}
	return r
}

func (c *Ctx) CheckPanics(labels ...string) {
	for _, l := range labels {
		if p, st := c.S.TaskPanic(l); p != nil {
			c.S.Violate("C14.panic", l, "task panicked: %v\n%s", p, st)
		}
	}
}

type Scenario func(c *Ctx)

var registry = map[string]Scenario{}

func Register(name string, f Scenario) { registry[name] = f }

func Names() []string {
	var out []string
	for k := range registry {
		out = append(out, k)
	}
	sort.Strings(out)
	return out
}

var runCounter int

// Run executes one run. Must be called inside the process's synctest bubble.
func Run(p Params, scratch string) (res Result) {
	t0 := RealNow()
	res.Params = p
	f := registry[p.Scenario]
	if f == nil {
		res.Harness = "unknown scenario " + p.Scenario
		return
	}
	var plan, sched *sim.Tape
	if p.Replay {
		plan, sched = sim.ReplayTape(p.Plan), sim.ReplayTape(p.Sched)
	} else {
		plan, sched = sim.NewTape(p.Seed*2+1), sim.NewTape(p.Seed*2+2)
	}
	s := sim.New(plan, sched)
	if p.KeepLog > 0 {
		s.KeepLog = p.KeepLog
	}
	runCounter++
	root := filepath.Join(scratch, fmt.Sprintf("run%d", runCounter))
	_ = os.MkdirAll(root, 0o755)
	c := &Ctx{S: s, P: p, R: s.Plan, Root: root, Res: &res, cells: map[string]bool{}}
	world.ResetOrigin()
	func() {
		defer func() {
			if r := recover(); r != nil {
				buf := make([]byte, 16<<10)
				n := runtime.Stack(buf, false)
				res.Harness = fmt.Sprintf("scenario panicked: %v\n%s", r, buf[:n])
			}
		}()
		f(c)
	}()
	s.Close()
	_ = os.RemoveAll(root)
	res.Violations = s.Violations
	res.Steps = s.Steps
	res.Preempts = s.Preempts
	res.Ambig = s.Ambig
	res.TraceHash = s.TraceHash()
	res.Faults = s.Faults
	res.Probes = s.Probes
	res.Aborted = s.Aborted
	res.TraceLog = s.TraceLog
	if res.PlanTape == nil && res.SchedTape == nil {
		res.PlanTape = plan.Used()
		res.SchedTape = sched.Used()
	}
	res.SimMs = float64(s.SimTime) / 1e6
	res.WallMs = float64(RealNow()-t0) / 1e6
	for k := range c.cells {
		res.Cells = append(res.Cells, k)
	}
	sort.Strings(res.Cells)
	return
}

// StateHash is a hash of the abstract state (sorted key:size + LRU order).
func StateHash(o world.Obs) string {
	h := sha256.New()
	for _, e := range o.Index {
		fmt.Fprintf(h, "%s:%d:%v|", e.Key, e.Size, e.Legacy)
	}
	return hex.EncodeToString(h.Sum(nil))[:12]
}
