package scen

import (
	"bytes"
	"fmt"
	"os"
	"sort"

	"verifsim/fmtv2"
	"verifsim/sim"
	"verifsim/world"

	"github.com/buchgr/bazel-remote/v2/cache"

	pb "github.com/buchgr/bazel-remote/v2/genproto/build/bazel/remote/execution/v2"
)

// lru — scenario family S1 for C05: one client, sequential puts / overwrites /
// lookups against a small cache; a specification model of recency (a sequence
// of groups whose internal order is unspecified) judges which entries may
// leave the index in each operation.
func init() { Register("lru", lruScen) }

type lruModel struct {
	groups [][]string // oldest first; keys within a group are unordered
}

func (m *lruModel) remove(k string) {
	for gi, g := range m.groups {
		for i, x := range g {
			if x == k {
				m.groups[gi] = append(append([]string(nil), g[:i]...), g[i+1:]...)
				return
			}
		}
	}
}

func (m *lruModel) use(keys ...string) {
	if len(keys) == 0 {
		return
	}
	for _, k := range keys {
		m.remove(k)
	}
	var ng [][]string
	for _, g := range m.groups {
		if len(g) > 0 {
			ng = append(ng, g)
		}
	}
	m.groups = append(ng, append([]string(nil), keys...))
}

func (m *lruModel) has(k string) bool {
	for _, g := range m.groups {
		for _, x := range g {
			if x == k {
				return true
			}
		}
	}
	return false
}

func lruScen(c *Ctx) {
	r, s := c.R, c.S
	cfg := drawCfg(r, false)
	cfg.MaxSize = []int64{64 << 10, 8 << 10, 24 << 10, 256 << 10, 1 << 20, 2 << 20, 40 << 10}[r.Intn(7)]
	if r.Chance(1, 4) {
		s.Policy.StarveRemover = true
	}
	c.Logf("cfg %+v", cfg)
	var n *world.Node
	var watchKey, watchRandom string
	// C05.old-stays: while an overwrite is in flight the replaced version's
	// file must exist as long as the index still points at it.
	s.StepHook = func(s *sim.Sim) {
		if n == nil || n.Cache == nil {
			return
		}
		world.StepInvariants(s, n, "")
		if watchKey != "" {
			if e := world.Observe(n).Find(watchKey); e != nil && e.Random == watchRandom {
				if _, err := os.Stat(e.Path); err != nil {
					s.Violate("C05.old-stays", "overwrite", "the replaced version of %s is still indexed but its file is gone before the new upload completed", short(watchKey))
				}
			}
		}
	}
	// Optionally a backend (b0): uploads are written through, and a lookup of
	// an entry that is not held locally is an incoming fetch ("an incoming
	// upload or fetch"), which may evict exactly like an upload.
	var st *world.Store
	var proxy cache.Proxy
	if c.Opt("backend", "") == "1" || (c.Opt("backend", "") == "" && r.Chance(1, 3)) {
		st = world.NewStore(s, cfg.Storage == "zstd")
		proxy = &world.DirectProxy{St: st}
	}
	backendHas := func(key string) bool {
		if st == nil {
			return false
		}
		ek, hash := cache.CAS, key[4:]
		if key[:3] == "ac/" {
			ek, hash = cache.AC, key[3:]
		}
		return st.Has(world.ObjectName(ek, hash, st.V2))
	}
	n = c.Start("g0:", c.Dir("f"), cfg, proxy)
	if n.Err != nil {
		s.Violate("C09.starts", "g0:", "start-up failed on an empty directory: %v", n.Err)
		return
	}
	model := &lruModel{}
	max := cfg.MaxSize
	// size palette relative to max_size
	drawSize := func() int64 {
		switch r.Weighted(4, 3, 2, 1, 1, 1) {
		case 0:
			return []int64{100, 3000, 4096, 4097, 1}[r.Intn(5)]
		case 1:
			return max / int64(3+r.Intn(4))
		case 2:
			return max/2 + int64(r.Intn(3)-1)*4096
		case 3:
			return max - int64(r.Intn(3))*4096 - int64(r.Intn(2)*100)
		case 4:
			return max + 1 + int64(r.Intn(2))*5000
		default:
			return max
		}
	}
	type op struct {
		kind  int // 0 put, 1 get, 2 contains, 3 findmissing, 4 http get, 5 http head, 6 corrupt put
		key   string
		ek    cache.EntryKind
		b     *world.Blob
		multi []*world.Blob
	}
	var universe []*world.Blob // CAS blobs ever uploaded successfully or not
	acKeys := []string{world.HashOf([]byte("lru-ac-0")), world.HashOf([]byte("lru-ac-1")), world.HashOf([]byte("lru-ac-2"))}
	nOps := 6 + r.Intn(25)
	var ops []op
	seq := 0
	for i := 0; i < nOps; i++ {
		k := r.Weighted(6, 2, 1, 2, 1, 1, 1)
		if len(universe) == 0 {
			k = 0
		}
		switch k {
		case 0, 6:
			seq++
			sz := drawSize()
			if sz < 1 {
				sz = 1
			}
			if sz > 12<<20 {
				sz = 12 << 20
			}
			if r.Chance(1, 3) && len(universe) > 0 && k == 0 {
				// overwrite an AC key with a value of another size, or re-put a CAS blob
				if r.Chance(1, 2) {
					b := world.Make(world.BlobID{Kind: r.Intn(3), Seed: 4000 + seq, Size: sz})
					ops = append(ops, op{kind: 0, ek: cache.AC, key: "ac/" + acKeys[r.Intn(3)], b: b})
				} else {
					b := universe[r.Intn(len(universe))]
					ops = append(ops, op{kind: 0, ek: cache.CAS, key: "cas/" + b.Hash, b: b})
				}
				continue
			}
			b := world.Make(world.BlobID{Kind: r.Intn(3), Seed: 4000 + seq, Size: sz})
			universe = append(universe, b)
			if st != nil && k == 0 && sz <= max && r.Chance(1, 3) {
				// held by the backend only: the first lookup fetches it
				obj := b.Data
				if st.V2 {
					obj = fmtv2.Encode(b.Data, fmtv2.WriteOpts{})
				}
				st.Objects[world.ObjectName(cache.CAS, b.Hash, st.V2)] = obj
				ops = append(ops, op{kind: []int{1, 4, 1}[r.Intn(3)], ek: cache.CAS, key: "cas/" + b.Hash, b: b})
				continue
			}
			ops = append(ops, op{kind: k, ek: cache.CAS, key: "cas/" + b.Hash, b: b})
		case 1, 2, 4, 5:
			if r.Chance(1, 4) {
				ops = append(ops, op{kind: 1, ek: cache.AC, key: "ac/" + acKeys[r.Intn(3)]})
				continue
			}
			b := universe[r.Intn(len(universe))]
			ops = append(ops, op{kind: k, ek: cache.CAS, key: "cas/" + b.Hash, b: b})
		case 3:
			m := 1 + r.Intn(5)
			var bs []*world.Blob
			for j := 0; j < m; j++ {
				bs = append(bs, universe[r.Intn(len(universe))])
			}
			ops = append(ops, op{kind: 3, multi: bs})
		}
	}
	for i, o := range ops {
		switch {
		case o.kind == 3:
			c.Logf("%d: findmissing %d digests", i, len(o.multi))
		case o.b != nil:
			c.Logf("%d: op%d %s %s", i, o.kind, short(o.key), o.b.ID)
		default:
			c.Logf("%d: op%d %s", i, o.kind, short(o.key))
		}
	}
	acVals := map[string][]byte{}
	s.Go("g0:c0", func() {
		cl := world.NewClient(s, n)
		for i, o := range ops {
			before := world.Observe(n)
			// Space taken by the indexed entries, from the files themselves (not
			// from the index's own bookkeeping; that they agree is C03/C04).
			sizeOf := map[string]int64{}
			var sigma int64
			for _, e := range before.Index {
				sz := e.SizeOnDisk
				if fi, err := os.Stat(e.Path); err == nil {
					sz = fi.Size()
				}
				sizeOf[e.Key] = world.R4k(sz)
				sigma += world.R4k(sz)
			}
			var used []string // keys this request uses (hits / writes)
			var incoming int64 = -1
			var wrote string
			fetched := false
			site := ""
			switch o.kind {
			case 0, 6:
				data := o.b.Data
				if o.kind == 6 {
					data = append([]byte(nil), data...)
					data[len(data)/2] ^= 0x10
					s.Fault("upload.flip")
				}
				hash := o.key[len(o.ek.String())+1:]
				if e := before.Find(o.key); e != nil {
					watchKey, watchRandom = o.key, e.Random
				}
				res := cl.DiskPut(o.ek, hash, o.b.Size(), world.NewParkReader(s, data, world.DrawCuts(r, len(data)), -1))
				watchKey = ""
				site = "disk.Put/" + o.ek.String()
				incoming = o.b.Size()
				s.Note("%d put %s %s -> %s", i, short(o.key), o.b.ID, res.Code)
				if o.b.Size() > max {
					if res.OK {
						s.Violate("C05.oversize", site, "item of logical size %d accepted by a cache of max_size %d", o.b.Size(), max)
					}
					incoming = -2 // nothing may be evicted
				} else if o.kind == 6 {
					if res.OK {
						s.Violate("C01.reject", site, "corrupted upload acknowledged")
					}
				} else if res.OK {
					wrote = o.key
					if o.ek == cache.AC {
						acVals[o.key] = o.b.Data
					}
				} else {
					s.Probe("commit_refused") // logical size fits, size on disk does not
				}
			case 1:
				hash := o.key[len(o.ek.String())+1:]
				sz := int64(-1)
				if o.b != nil {
					sz = o.b.Size()
				}
				res := cl.DiskGet(o.ek, hash, sz, 0, false, world.FullRead)
				site = "disk.Get"
				s.Note("%d get %s -> %s", i, short(o.key), res.Code)
				if _, idx := sizeOf[o.key]; !idx && st != nil && !res.Found && sz > 0 {
					// a local miss with a backend configured is an incoming fetch of
					// the requested size until the backend has answered: room is
					// made for it first, whether or not the backend then delivers
					incoming = sz
					site = "disk.Get/fetch-attempt"
					s.Probe("fetch_attempt_missed_in_backend")
				}
				if res.Found {
					want := acVals[o.key]
					if o.b != nil {
						want = o.b.Data
					}
					if _, idx := sizeOf[o.key]; !idx && backendHas(o.key) {
						incoming, fetched = int64(len(want)), true // fetched through the proxy
						s.Probe("fetch_through_proxy")
					} else {
						used = append(used, o.key)
					}
					if res.OK && !bytes.Equal(res.Data, want) {
						s.Violate("C02.exact", site, "read of %s returned wrong bytes", short(o.key))
					}
				}
			case 2:
				res := cl.DiskContains(cache.CAS, o.b.Hash, o.b.Size())
				site = "disk.Contains"
				if _, idx := sizeOf[o.key]; res.Found && (idx || !backendHas(o.key)) {
					used = append(used, o.key)
				}
			case 3:
				var ds []*pb.Digest
				for _, b := range o.multi {
					ds = append(ds, world.Digest(b.Hash, b.Size()))
				}
				_, missing := cl.FindMissing(ds)
				site = "FindMissingBlobs"
				miss := map[string]bool{}
				for _, d := range missing {
					miss[d.Hash] = true
				}
				seen := map[string]bool{}
				for _, b := range o.multi {
					if !miss[b.Hash] && !seen[b.Hash] {
						seen[b.Hash] = true
						if _, idx := sizeOf["cas/"+b.Hash]; idx || !backendHas("cas/"+b.Hash) {
							used = append(used, "cas/"+b.Hash)
						}
					}
				}
			case 4:
				res := cl.HTTPGet("/cas/"+o.b.Hash, r.Chance(1, 2), world.FullRead)
				site = "http.GET"
				if _, idx := sizeOf[o.key]; res.Found && !idx && backendHas(o.key) {
					incoming, fetched = o.b.Size(), true
					s.Probe("fetch_through_proxy")
				} else if res.Found {
					used = append(used, o.key)
				}
			case 5:
				res := cl.HTTPHead("/cas/" + o.b.Hash)
				site = "http.HEAD"
				if _, idx := sizeOf[o.key]; res.Found && (idx || !backendHas(o.key)) {
					used = append(used, o.key)
				}
			}
			c.Res.Ops++
			after := world.Observe(n)
			inAfter := map[string]bool{}
			for _, e := range after.Index {
				inAfter[e.Key] = true
			}
			if fetched {
				site += "/fetch"
				if inAfter[o.key] {
					wrote = o.key
				} else {
					s.Probe("fetch_not_kept")
				}
			}
			// a lookup reported as a hit must concern an entry that was indexed
			for _, k := range used {
				if _, ok := sizeOf[k]; !ok {
					s.Violate("C05.model", site, "lookup of %s hit although the entry was not indexed before", short(k))
				}
			}
			// E: entries that left the index during the operation
			evicted := map[string]bool{}
			for _, e := range before.Index {
				if !inAfter[e.Key] && e.Key != wrote && !(incoming != -1 && e.Key == o.key) {
					evicted[e.Key] = true // (the written key itself is judged separately)
				}
			}
			if wrote == "" && incoming >= 0 && o.kind != 3 {
				// a refused/failed put: the key itself may have been evicted by the reservation
			}
			if len(evicted) > 0 {
				s.Probe("evictions")
			}
			// the model must know every indexed key
			for _, e := range before.Index {
				if !model.has(e.Key) {
					s.Violate("C05.model", site, "index holds %s which no acknowledged upload created", short(e.Key))
					model.use(e.Key)
				}
			}
			var dNew int64
			if wrote != "" {
				if e := after.Find(wrote); e != nil {
					dNew = world.R4k(e.SizeOnDisk)
					if fi, err := os.Stat(e.Path); err == nil {
						dNew = world.R4k(fi.Size())
					}
				} else if fits(o.b.Size(), max) {
					s.Violate("C05.present-after", site, "accepted upload of %s (%d bytes, max_size %d) is not indexed afterwards", short(wrote), o.b.Size(), max)
				}
			}
			switch {
			case incoming == -2 || incoming == -1:
				if len(evicted) > 0 {
					what := "a lookup"
					if incoming == -2 {
						what = "an item larger than max_size"
						s.Violate("C05.oversize", site, "%s evicted %d entries", what, len(evicted))
					} else {
						s.Violate("C05.no-pressure", site, "%s evicted %d entries", what, len(evicted))
					}
				}
			default:
				need := incoming
				if dNew > need {
					need = dNew
				}
				if sigma+need <= max && len(evicted) > 0 {
					s.Violate("C05.no-pressure", site, "upload of %d bytes (on disk %d) evicted %d entries although accounted %d + it fits max_size %d", incoming, dNew, len(evicted), sigma, max)
				}
				// order: E must be downward closed in the recency order (ignoring the written key)
				toFree := sigma + need - max
				checkOrder(s, model, evicted, o.key, site, sizeOf, toFree)
			}
			// update the model
			for k := range evicted {
				model.remove(k)
			}
			if incoming >= 0 && wrote == "" && !inAfter[o.key] {
				model.remove(o.key) // evicted by its own failed upload's reservation
			}
			if wrote != "" && inAfter[wrote] {
				model.use(wrote)
			}
			var stillUsed []string
			for _, k := range used {
				if inAfter[k] {
					stillUsed = append(stillUsed, k)
				}
			}
			model.use(stillUsed...)
			// cross-check: the model's groups are consistent with the observed order
			checkConsistent(s, model, after, site)
			if s.Failed() {
				return
			}
		}
	})
	c.RunTasks("C14.returns")
	c.CheckPanics("g0:c0")
	s.Policy = sim.Policy{}
	if s.Drain() != sim.Quiesced {
		s.Violate("C14.returns", "drain", "background work did not drain")
		return
	}
	world.Quiescence(s, n, world.QuiescenceOpts{})
	c.Res.StateHash = StateHash(world.Observe(n))
	_ = os.Stat
	_ = fmt.Sprint
}

func fits(logical, max int64) bool { return logical <= max }

// checkOrder: never evict x while a less recently used y survives; and not
// more than needed. groups are oldest first; the written key is ignored.
func checkOrder(s *sim.Sim, m *lruModel, evicted map[string]bool, self, site string, sizeOf map[string]int64, toFree int64) {
	if len(evicted) == 0 {
		return
	}
	partial := false
	count := 0
	for _, g := range m.groups {
		ev, keep := 0, 0
		for _, k := range g {
			if k == self {
				continue
			}
			if evicted[k] {
				ev++
			} else {
				keep++
			}
		}
		if ev > 0 && partial {
			s.Violate("C05.order", site, "an entry was evicted while a less recently used entry survived")
			return
		}
		if keep > 0 {
			partial = true
		}
		count += ev
	}
	if count != len(evicted) {
		s.Violate("C05.model", site, "evicted entries unknown to the model")
		return
	}
	// minimality: the smallest number of oldest entries that frees toFree
	// bytes, assuming the least favourable (smallest first) order inside a group
	if toFree <= 0 {
		return // covered by no-pressure
	}
	var freed int64
	minimal := 0
	for _, g := range m.groups {
		var sz []int64
		for _, k := range g {
			if k != self {
				sz = append(sz, sizeOf[k])
			}
		}
		sort.Slice(sz, func(i, j int) bool { return sz[i] < sz[j] })
		for _, x := range sz {
			if freed >= toFree {
				break
			}
			freed += x
			minimal++
		}
		if freed >= toFree {
			break
		}
	}
	if len(evicted) > minimal {
		s.Violate("C05.minimal", site, "%d entries evicted where %d of the least recently used ones free the %d bytes needed", len(evicted), minimal, toFree)
	}
}

// checkConsistent: the observed LRU order must be a linearisation of the
// model's group order.
func checkConsistent(s *sim.Sim, m *lruModel, o world.Obs, site string) {
	pos := map[string]int{}
	for i, k := range o.KeysOldestFirst() {
		pos[k] = i
	}
	last := -1
	n := 0
	for _, g := range m.groups {
		lo, hi := 1<<30, -1
		for _, k := range g {
			p, ok := pos[k]
			if !ok {
				s.Violate("C05.model", site, "model holds %s which is not indexed", short(k))
				return
			}
			n++
			if p < lo {
				lo = p
			}
			if p > hi {
				hi = p
			}
		}
		if len(g) == 0 {
			continue
		}
		if lo <= last {
			s.Violate("C05.recency", site, "observed LRU order contradicts the uses so far: an entry used earlier is ranked more recent than one used later")
			return
		}
		last = hi
	}
	if n != len(o.Index) {
		s.Violate("C05.model", site, "index has %d entries, model %d", len(o.Index), n)
	}
}
