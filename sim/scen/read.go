package scen

import (
	"bytes"
	"fmt"

	"verifsim/sim"
	"verifsim/world"

	"github.com/buchgr/bazel-remote/v2/cache"
	"google.golang.org/protobuf/proto"

	pb "github.com/buchgr/bazel-remote/v2/genproto/build/bazel/remote/execution/v2"
)

// read — scenario family S1 for C02: blobs are stored (optionally by an
// instance running the other storage mode / zstd implementation, followed by
// a clean restart), then read through every read path at boundary offsets and
// limits, with consumers that stop early. zstd responses are decoded by two
// standard decoders the harness owns.
func init() { Register("read", readScen) }

const chunk = 1 << 20

func drawOffset(r sim.Rand, n int64) int64 {
	cands := []int64{0, 1, n - 1, n, chunk - 1, chunk, chunk + 1, n / 2, 4096, 4095}
	o := cands[r.Weighted(5, 2, 2, 1, 2, 2, 2, 2, 1, 1)]
	if o < 0 {
		o = 0
	}
	if o > n {
		o = n
	}
	return o
}

func readScen(c *Ctx) {
	r, s := c.R, c.S
	cfg := drawCfg(r, false)
	var n *world.Node
	s.StepHook = func(s *sim.Sim) {
		if n != nil && n.Cache != nil {
			world.StepInvariants(s, n, "")
		}
	}
	n = c.Start("g0:", c.Dir("f"), cfg, nil)
	if n.Err != nil {
		s.Violate("C09.starts", "g0:", "start-up failed: %v", n.Err)
		return
	}
	c.Logf("writer cfg %+v", cfg)
	// C02.empty: the empty blob is readable on every path from an empty cache
	s.Go("g0:empty", func() {
		cl := world.NewClient(s, n)
		e := world.EmptySha256
		check := func(path string, res world.Res) {
			if !(res.OK && res.Found && len(res.Data) == 0) {
				s.Violate("C02.empty", path, "the empty blob is not readable on an empty cache: %s %s", res, res.Err)
			}
		}
		check("http.GET", cl.HTTPGet("/cas/"+e, false, world.FullRead))
		check("http.GET+zstd", cl.HTTPGet("/cas/"+e, true, world.FullRead))
		check("disk.Get", cl.DiskGet(cache.CAS, e, 0, 0, false, world.FullRead))
		check("disk.Get(-1)", cl.DiskGet(cache.CAS, e, -1, 0, false, world.FullRead))
		check("disk.GetZstd", cl.DiskGet(cache.CAS, e, 0, 0, true, world.FullRead))
		check("ByteStream.Read", cl.BSRead(world.ReadName("", e, 0, false), 0, 0, false, world.FullRead))
		check("ByteStream.Read+zstd", cl.BSRead(world.ReadName("inst", e, 0, true), 0, 0, true, world.FullRead))
		for _, z := range []bool{false, true} {
			_, per := cl.BatchRead([]*pb.Digest{world.Digest(e, 0)}, z)
			if len(per) != 1 || per[0].Code != "OK" || len(per[0].Data) != 0 {
				s.Violate("C02.empty", "BatchReadBlobs", "the empty blob is not readable (zstd=%v): %+v", z, per)
			}
		}
		_, missing := cl.FindMissing([]*pb.Digest{world.Digest(e, 0)})
		if len(missing) != 0 {
			s.Violate("C10.empty-blob", "FindMissingBlobs", "the empty blob is reported missing")
		}
		if h := cl.HTTPHead("/cas/" + e); !h.Found {
			s.Violate("C02.empty", "http.HEAD", "the empty blob is not found by HEAD")
		}
	})
	c.RunTasks("C14.returns")
	c.CheckPanics("g0:empty")

	// blobs
	nb := 2 + r.Intn(4)
	var blobs []*world.Blob
	for i := 0; i < nb; i++ {
		sz := world.SizeClasses[r.Weighted(4, 2, 2, 2, 2, 2, 2, 2, 2, 2, 1)]
		blobs = append(blobs, world.Make(world.BlobID{Kind: r.Intn(4), Seed: 6000 + i, Size: sz}))
	}
	// a directory tree stored as CAS blobs (GetTree)
	leafA := &pb.Directory{Files: []*pb.FileNode{{Name: "a.txt", Digest: world.Digest(blobs[0].Hash, blobs[0].Size())}}}
	leafB := &pb.Directory{Files: []*pb.FileNode{{Name: "b.bin", Digest: world.Digest(blobs[1].Hash, blobs[1].Size()), IsExecutable: true}}}
	mkDirBlob := func(d *pb.Directory) *world.Blob {
		data, _ := proto.Marshal(d)
		return world.FromBytes(world.BlobID{Kind: 8, Seed: -1, Size: int64(len(data))}, data)
	}
	la, lb := mkDirBlob(leafA), mkDirBlob(leafB)
	mid := &pb.Directory{Directories: []*pb.DirectoryNode{{Name: "la", Digest: world.Digest(la.Hash, la.Size())}}, Files: leafB.Files}
	mb := mkDirBlob(mid)
	root := &pb.Directory{Directories: []*pb.DirectoryNode{{Name: "mid", Digest: world.Digest(mb.Hash, mb.Size())}, {Name: "lb", Digest: world.Digest(lb.Hash, lb.Size())}}}
	rb := mkDirBlob(root)
	treeBlobs := []*world.Blob{la, lb, mb, rb}
	wantTree := []*pb.Directory{root, mid, leafA, leafB}
	withTree := r.Chance(1, 2)
	acKey := world.HashOf([]byte("read-ac"))
	withAR := r.Chance(1, 2)

	s.Go("g0:w", func() {
		cl := world.NewClient(s, n)
		all := append([]*world.Blob(nil), blobs...)
		if withTree {
			all = append(all, treeBlobs...)
		}
		for _, b := range all {
			var res world.Res
			switch r.Intn(3) {
			case 0:
				res = cl.DiskPut(cache.CAS, b.Hash, b.Size(), world.NewParkReader(s, b.Data, world.DrawCuts(r, len(b.Data)), -1))
			case 1:
				res, _ = cl.HTTP(world.HTTPReq{Method: "PUT", Path: "/cas/" + b.Hash, CLen: b.Size(), Body: world.NewParkReader(s, b.Data, nil, -1), FailAt: -1, ParkAt: -1})
			default:
				name := world.WriteName("", "w", b.Hash, b.Size(), false, "")
				res, _ = cl.BSWrite(world.SplitMsgs(name, b.Data, world.DrawCuts(r, len(b.Data)), true, false), nil)
			}
			if !res.OK {
				s.Violate("C01.accept", "write-phase", "well-formed upload of %s refused: %s %s", b.ID, res.Code, res.Err)
			}
		}
		if withAR {
			ar := &pb.ActionResult{
				StdoutDigest: world.Digest(blobs[0].Hash, blobs[0].Size()),
				StderrDigest: world.Digest(blobs[1].Hash, blobs[1].Size()),
				OutputFiles:  []*pb.OutputFile{{Path: "o/0", Digest: world.Digest(blobs[0].Hash, blobs[0].Size())}, {Path: "o/1", Digest: world.Digest(blobs[1].Hash, blobs[1].Size())}},
			}
			if res, _ := cl.UpdateAR("", acKey, ar); !res.OK {
				s.Violate("C11.accept", "UpdateActionResult", "valid ActionResult refused: %s %s", res.Code, res.Err)
			}
		}
	})
	c.RunTasks("C14.returns")
	c.CheckPanics("g0:w")
	if s.Failed() {
		return
	}
	s.Drain()
	// optional clean restart under another storage mode / codec
	rcfg := cfg
	if r.Chance(1, 2) {
		if r.Chance(1, 2) {
			rcfg.Storage = map[string]string{"zstd": "uncompressed", "uncompressed": "zstd"}[cfg.Storage]
		}
		if r.Chance(1, 2) {
			rcfg.Zstd = map[string]string{"go": "cgo", "cgo": "go"}[cfg.Zstd]
		}
		n2 := c.Start("g1:", n.Dir, rcfg, nil)
		if n2.Err != nil {
			s.Violate("C09.starts", "g1:", "clean restart failed: %v", n2.Err)
			return
		}
		n = n2
		c.Logf("reader cfg %+v", rcfg)
	}
	gen := n.Gen
	mode := cfg.Storage + ">" + rcfg.Storage + "/" + cfg.Zstd + ">" + rcfg.Zstd
	nReads := 8 + r.Intn(16)
	s.Go(gen+"r", func() {
		cl := world.NewClient(s, n)
		for i := 0; i < nReads; i++ {
			b := blobs[r.Intn(len(blobs))]
			nn := b.Size()
			ro := world.FullRead
			stop := false
			if r.Chance(1, 5) && nn > 2 {
				ro.StopAt = 1 + r.Intn(int(nn)-1)
				stop = true
			}
			var res world.Res
			var off, lim int64
			path := ""
			identity := true
			switch r.Intn(9) {
			case 0:
				path = "http.GET"
				res = cl.HTTPGet("/cas/"+b.Hash, false, ro)
				if res.OK && res.Size != nn {
					s.Violate("C02.exact", path, "Content-Length %d for a blob of %d bytes", res.Size, nn)
				}
			case 1:
				path, identity = "http.GET+zstd", false
				res = cl.HTTPGet("/cas/"+b.Hash, true, ro)
			case 2:
				path = "ByteStream.Read"
				off = drawOffset(r, nn)
				switch r.Weighted(4, 1, 1, 1) {
				case 1:
					lim = nn - off
				case 2:
					lim = 1
				case 3:
					lim = (nn - off) / 2
				}
				res = cl.BSRead(world.ReadName([]string{"", "main", "a/b"}[r.Intn(3)], b.Hash, nn, false), off, lim, false, ro)
				if lim > 0 && int64(len(res.Raw)) > lim {
					s.Violate("C02.limit", path, "%d bytes delivered with read_limit %d (offset %d, size %d)", len(res.Raw), lim, off, nn)
				}
			case 3:
				path, identity = "ByteStream.Read+zstd", false
				off = drawOffset(r, nn)
				res = cl.BSRead(world.ReadName("", b.Hash, nn, true), off, 0, true, ro)
			case 4:
				path = "disk.Get"
				off = drawOffset(r, nn)
				sz := nn
				if r.Chance(1, 2) {
					sz = -1
				}
				res = cl.DiskGet(cache.CAS, b.Hash, sz, off, false, ro)
				path = fmt.Sprintf("disk.Get(size=%v)", sz >= 0)
				if res.Found && res.Size != nn {
					s.Violate("C02.exact", path, "Get reports size %d for a blob of %d bytes", res.Size, nn)
				}
			case 5:
				path, identity = "disk.GetZstd", false
				off = drawOffset(r, nn)
				sz := nn
				if r.Chance(1, 2) {
					sz = -1
				}
				res = cl.DiskGet(cache.CAS, b.Hash, sz, off, true, ro)
				if res.Found && res.Size != nn {
					s.Violate("C02.exact", path, "GetZstd reports size %d for a blob of %d bytes", res.Size, nn)
				}
			case 6, 7:
				z := r.Chance(1, 2)
				path = "BatchReadBlobs"
				if z {
					path = "BatchReadBlobs+zstd"
				}
				b2 := blobs[r.Intn(len(blobs))]
				ds := []*pb.Digest{world.Digest(b.Hash, nn), world.Digest(b2.Hash, b2.Size())}
				rr, per := cl.BatchRead(ds, z)
				c.Cell("%s|%s|%s", path, mode, sizeClass(nn))
				if !rr.OK || len(per) != 2 {
					s.Violate("C01.ack-present", path, "BatchReadBlobs failed for stored blobs: %s %s", rr.Code, rr.Err)
					continue
				}
				for j, want := range []*world.Blob{b, b2} {
					if per[j].Code != "OK" {
						s.Violate("C01.ack-present", path, "stored blob %s not readable: %s %s", want.ID, per[j].Code, per[j].Err)
					} else if !bytes.Equal(per[j].Data, want.Data) {
						s.Violate("C02.exact", path, "blob %s: %d bytes returned that differ from the stored %d bytes (%s)", want.ID, len(per[j].Data), want.Size(), mode)
					}
				}
				continue
			case 8:
				if withAR {
					path = "GetActionResult.inline"
					in := world.InlineReq{Stdout: r.Chance(1, 2), Stderr: r.Chance(1, 2)}
					if r.Chance(1, 2) {
						in.Files = []string{"o/0", "o/1"}
					}
					rr, ar := cl.GetAR("", acKey, in)
					if !rr.OK || ar == nil {
						s.Violate("C06.hit-iff", path, "ActionResult with all blobs present is not a hit: %s %s", rr.Code, rr.Err)
						continue
					}
					chk := func(what string, got []byte, want *world.Blob, asked bool) {
						if len(got) > 0 && !bytes.Equal(got, want.Data) {
							s.Violate("C02.exact", path, "%s inlined with %d bytes that differ from blob %s", what, len(got), want.ID)
						}
					}
					chk("stdout", ar.StdoutRaw, blobs[0], in.Stdout)
					chk("stderr", ar.StderrRaw, blobs[1], in.Stderr)
					for j, of := range ar.OutputFiles {
						if j < 2 {
							chk("output file "+of.Path, of.Contents, blobs[j], len(in.Files) > 0)
						}
					}
					continue
				}
				if withTree {
					path = "GetTree"
					rr, dirs := cl.GetTree(rb.Hash, rb.Size())
					if !rr.OK {
						s.Violate("C01.ack-present", path, "GetTree of a stored tree failed: %s %s", rr.Code, rr.Err)
						continue
					}
					if len(dirs) != len(wantTree) {
						s.Violate("C02.exact", path, "GetTree returned %d directories, the stored tree has %d", len(dirs), len(wantTree))
						continue
					}
					for j := range dirs {
						if !proto.Equal(dirs[j], wantTree[j]) {
							s.Violate("C02.exact", path, "GetTree directory %d differs from the stored Directory message", j)
						}
					}
				}
				continue
			}
			c.Res.Ops++
			c.Cell("%s|%s|%s|off=%s", path, mode, sizeClass(nn), offClass(off, nn))
			want := b.Data[off:]
			s.Note("%d %s %s off=%d lim=%d -> %s n=%d", i, path, b.ID, off, lim, res.Code, len(res.Data))
			switch {
			case res.OK && res.Found:
				if stop {
					continue
				}
				if !bytes.Equal(res.Data, want) {
					s.Violate("C02.exact", path, "read of %s at offset %d returned %d bytes that are not bytes [%d,%d) of the blob (%s)", b.ID, off, len(res.Data), off, nn, mode)
				}
			case stop:
				if identity && !bytes.HasPrefix(want, res.Data) {
					s.Violate("C02.prefix", path, "bytes delivered before the client stopped are not a prefix of [%d,%d) of %s", off, nn, b.ID)
				}
			default:
				if identity && !bytes.HasPrefix(want, res.Data) {
					s.Violate("C02.prefix", path, "bytes delivered before the error are not a prefix of [%d,%d) of %s", off, nn, b.ID)
				}
				legit := off >= nn || (lim > 0 && lim < nn-off)
				if !legit {
					s.Violate("C01.ack-present", path, "well-formed read of stored blob %s (offset %d, limit %d) failed: %s %s", b.ID, off, lim, res.Code, res.Err)
				}
			}
		}
	})
	c.RunTasks("C14.returns")
	c.CheckPanics(gen + "r")
	if s.Drain() == sim.Quiesced {
		world.Quiescence(s, n, world.QuiescenceOpts{})
		if fds := world.OpenFDs(n.Dir); len(fds) > 0 {
			s.Violate("C14.fds", "fd", "open descriptors into the cache directory with no request in flight: %v", fds)
		}
	}
}

func offClass(off, n int64) string {
	switch {
	case off == 0:
		return "0"
	case off == n:
		return "n"
	case off == n-1:
		return "n-1"
	case off%chunk == 0:
		return "chunk"
	case off%chunk == 1:
		return "chunk+1"
	case off%chunk == chunk-1:
		return "chunk-1"
	}
	return "mid"
}
