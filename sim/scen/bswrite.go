package scen

import (
	"bytes"
	"fmt"

	"verifsim/sim"
	"verifsim/world"

	"github.com/buchgr/bazel-remote/v2/cache"
	"google.golang.org/genproto/googleapis/bytestream"
)

// bswrite — C16: the ByteStream.Write / QueryWriteStatus protocol: all
// chunkings of the payload into messages (one-byte chunks, empty messages,
// finish_write on the last message, on an extra empty message, or absent),
// identity and zstd, blob present or absent beforehand, resource names with
// instance prefixes and trailing metadata; protocol violations for an absent
// blob must fail the call and store nothing. The scheduler explores the race
// between the receive goroutine, the Put goroutine and the handler.
func init() { Register("bswrite", bsWriteScen) }

const (
	pvNone = iota
	pvOffset
	pvRename
	pvTooMany
	pvTooFew
	pvBadName
	pvCount
)

var pvNames = []string{"none", "nonzero-first-offset", "name-change", "too-many-bytes", "too-few-bytes", "unparsable-name"}

func bsWriteScen(c *Ctx) {
	r, s := c.R, c.S
	cfg := drawCfg(r, false)
	s.Policy = sim.Policy{Sticky: []int{0, 4, 6}[r.Intn(3)]}
	c.Logf("cfg %+v policy %+v", cfg, s.Policy)
	var n *world.Node
	s.StepHook = func(s *sim.Sim) {
		if n != nil && n.Cache != nil {
			world.StepInvariants(s, n, "")
		}
	}
	n = c.Start("g0:", c.Dir("f"), cfg, nil)
	if n.Err != nil {
		s.Violate("C09.starts", "g0:", "start-up failed: %v", n.Err)
		return
	}
	type wcase struct {
		b       *world.Blob
		z       bool
		present bool
		viol    int
		inst    string
		meta    string
		msgs    []world.WriteMsg
		sent    int64 // payload bytes the client put into messages
		descr   string
		name    string
		resumed bool
	}
	var cases []*wcase
	seenHash := map[string]bool{}
	for i := 0; i < 3+r.Intn(6); i++ {
		w := &wcase{}
		kind, size := r.Intn(3), []int64{100, 1, 5, 3000, 4097, 70000, 1<<20 + 1}[r.Weighted(4, 2, 2, 3, 2, 2, 1)]
		for seed := 13000 + i*100; ; seed++ { // distinct contents even for one-byte blobs
			w.b = world.Make(world.BlobID{Kind: kind, Seed: seed, Size: size})
			if !seenHash[w.b.Hash] {
				seenHash[w.b.Hash] = true
				break
			}
		}
		w.z = r.Chance(1, 2)
		w.present = r.Chance(1, 4)
		// (instance names whose segments merely contain a REAPI keyword are
		// legal: only a segment *equal* to one is reserved; added after seeded
		// change C16d)
		w.inst = []string{"", "main", "a/b/c", "ünï", "ci-uploads", "org/nightly.uploads", "uploadsx/myblobs", "team_uploads/compressed-blobs2/x"}[r.Weighted(4, 2, 1, 1, 1, 1, 1, 1)]
		w.meta = []string{"", "extra", "some/meta/data"}[r.Weighted(4, 1, 1)]
		if !w.present && r.Chance(1, 3) {
			w.viol = 1 + r.Intn(pvCount-1)
		}
		payload := w.b.Data
		if w.z {
			payload = world.Compress(w.b.Data, r.Chance(1, 2))
		}
		w.name = world.WriteName(w.inst, fmt.Sprintf("uuid%d", i), w.b.Hash, w.b.Size(), w.z, w.meta)
		// chunking
		var cuts []int
		switch r.Weighted(3, 2, 1, 2) {
		case 1:
			cuts = world.DrawCuts(r, len(payload))
		case 2: // one-byte chunks (bounded)
			for j := 1; j < len(payload) && j < 40; j++ {
				cuts = append(cuts, j)
			}
		case 3:
			if len(payload) > 1 {
				cuts = []int{1 + r.Intn(len(payload)-1)}
			}
		}
		finish := r.Weighted(3, 1, 1) // 0 on the last data message, 1 on an extra empty message, 2 never (half-close only)
		body := payload
		switch w.viol {
		case pvTooMany:
			body = append(append([]byte(nil), payload...), 0x42)
			if w.z {
				body = world.Compress(append(append([]byte(nil), w.b.Data...), 0x42), false)
			}
		case pvTooFew:
			if len(w.b.Data) < 2 {
				w.viol = pvNone
			} else if w.z {
				body = world.Compress(w.b.Data[:len(w.b.Data)-1], false)
			} else {
				body = payload[:len(payload)-1]
			}
		}
		w.msgs = world.SplitMsgs(w.name, body, cuts, finish == 0, true)
		w.sent = int64(len(body))
		if finish == 1 {
			w.msgs = append(w.msgs, world.WriteMsg{Req: &bytestream.WriteRequest{WriteOffset: int64(len(body)), FinishWrite: true}, Park: true})
		}
		if r.Chance(1, 4) && len(w.msgs) > 1 {
			// an empty message in the middle
			k := 1 + r.Intn(len(w.msgs)-1)
			em := world.WriteMsg{Req: &bytestream.WriteRequest{WriteOffset: w.msgs[k].Req.WriteOffset}, Park: true}
			w.msgs = append(w.msgs[:k:k], append([]world.WriteMsg{em}, w.msgs[k:]...)...)
		}
		if w.present && r.Chance(1, 3) {
			// a resumed upload of a blob that someone else completed meanwhile:
			// the first message carries a non-zero offset; the early exit applies
			w.msgs[0].Req.WriteOffset = 1 + int64(r.Intn(int(w.b.Size())))
			w.resumed = true
		}
		switch w.viol {
		case pvOffset:
			w.msgs[0].Req.WriteOffset = 1 + int64(r.Intn(5))
		case pvRename:
			if len(w.msgs) < 2 {
				w.msgs = append(w.msgs, world.WriteMsg{Req: &bytestream.WriteRequest{FinishWrite: true}, Park: true})
				w.msgs[0].Req.FinishWrite = false
			}
			w.msgs[len(w.msgs)-1].Req.ResourceName = world.WriteName(w.inst, "other", world.HashOf([]byte("x")), 1, w.z, "")
		case pvBadName:
			w.msgs[0].Req.ResourceName = []string{"uploads/u/blobs/" + w.b.Hash, "blobs/" + w.b.Hash + "/3", "uploads/u/blobs/" + w.b.Hash + "/notanumber", "uploads/u/compressed-blobs/gzip/" + w.b.Hash + "/3", "uploads/u/blobs/XYZ/3", "uploads/u/blobs/" + w.b.Hash + "/-3"}[r.Intn(6)]
		}
		w.descr = fmt.Sprintf("%s z=%v present=%v viol=%s inst=%q meta=%q msgs=%d finish=%d", w.b.ID, w.z, w.present, pvNames[w.viol], w.inst, w.meta, len(w.msgs), finish)
		cases = append(cases, w)
		c.Logf("%d: %s", i, w.descr)
	}
	s.Go("g0:c0", func() {
		cl := world.NewClient(s, n)
		for i, w := range cases {
			if w.present {
				if res := cl.DiskPut(cache.CAS, w.b.Hash, w.b.Size(), bytes.NewReader(w.b.Data)); !res.OK {
					s.Violate("C01.accept", "disk.Put", "upload refused: %s", res.Err)
				}
			}
			qname := world.WriteName(w.inst, "q", w.b.Hash, w.b.Size(), w.z, w.meta)
			q0, complete0 := cl.QueryWriteStatus(qname)
			if q0.OK && complete0 != w.present {
				s.Violate("C16.qws", "QueryWriteStatus", "complete=%v before the upload although present=%v", complete0, w.present)
			}
			res, ws := cl.BSWrite(w.msgs, nil)
			s.Settle()
			c.Res.Ops++
			site := "blobs"
			if w.z {
				site = "compressed-blobs"
			}
			c.Cell("%s|present=%v|%s|%s", site, w.present, pvNames[w.viol], cfg.Storage)
			s.Note("%d write %s -> %s committed=%d recvs=%d", i, w.descr, res.Code, res.Size, ws.Recvs)
			after := observePresence(cl, w.b.Hash, w.b.Size())
			switch {
			case w.present:
				if !res.OK {
					s.Violate("C16.early-exit", site, "write of an already present blob failed: %s %s", res.Code, res.Err)
				} else {
					wantCommitted := w.b.Size()
					if w.z {
						wantCommitted = -1
					}
					// either the early exit (size / -1) or a complete ordinary upload
					if res.Size != wantCommitted && (res.Size != w.sent || w.resumed) {
						s.Violate("C16.early-exit", site, "write of a present blob reports committed_size %d (want %d, or %d for a full upload)", res.Size, wantCommitted, w.sent)
					}
				}
				if !after.all() {
					s.Violate("C16.present-after", site, "blob is not present after a write to an existing blob: %+v", after)
				}
			case w.viol != pvNone:
				if res.OK {
					s.Violate("C16.reject", site+"/"+pvNames[w.viol], "protocol violation (%s) on an absent blob was acknowledged with committed_size %d", pvNames[w.viol], res.Size)
				}
				if after.any() {
					s.Violate("C16.reject", site+"/"+pvNames[w.viol], "a failed write (%s) made the blob present: %+v", pvNames[w.viol], after)
				}
				if fs := filesFor(n, w.b.Hash); len(fs) > 0 {
					s.Violate("C16.reject", site+"/"+pvNames[w.viol], "a failed write (%s) left files: %v", pvNames[w.viol], fs)
				}
			default:
				if !res.OK {
					s.Violate("C16.committed", site, "well-formed write refused: %s %s", res.Code, res.Err)
					break
				}
				if res.Size != w.sent {
					s.Violate("C16.committed", site, "committed_size %d, the client sent %d payload bytes (blob size %d)", res.Size, w.sent, w.b.Size())
				}
				if !after.all() {
					s.Violate("C16.present-after", site, "blob is not present after a successful write: %+v", after)
				}
			}
			q1, complete1 := cl.QueryWriteStatus(qname)
			if q1.OK {
				if complete1 != after.file {
					s.Violate("C16.qws", "QueryWriteStatus", "complete=%v although present=%v", complete1, after.file)
				}
				if complete1 && q1.Size != w.b.Size() {
					s.Violate("C16.qws", "QueryWriteStatus", "complete with committed_size %d, blob size %d", q1.Size, w.b.Size())
				}
				if !complete1 && q1.Size != 0 {
					s.Violate("C16.qws", "QueryWriteStatus", "incomplete with committed_size %d", q1.Size)
				}
			} else {
				s.Violate("C16.qws", "QueryWriteStatus", "conformant resource name %q not understood: %s", qname, q1.Err)
			}
			if s.Failed() {
				return
			}
		}
	})
	c.RunTasks("C14.returns")
	c.CheckPanics("g0:c0")
	if s.Drain() == sim.Quiesced && !s.Failed() {
		world.Quiescence(s, n, world.QuiescenceOpts{})
		if g := world.LeakedGoroutines(); len(g) > 0 {
			s.Violate("C14.goroutines", "ByteStream.Write", "goroutines left behind: %v", g)
		}
	}
}
