package scen

import (
	"bytes"
	"fmt"

	"verifsim/sim"
	"verifsim/world"

	"github.com/buchgr/bazel-remote/v2/cache"
	"google.golang.org/protobuf/proto"

	pb "github.com/buchgr/bazel-remote/v2/genproto/build/bazel/remote/execution/v2"
)

// backend2 — scenario family S5 with backend b2: the front end uses the real
// grpcproxy over a simulated grpc.ClientConnInterface whose other end is a
// second real bazel-remote instance (own directory, own storage mode). Faults
// are what a gRPC client sees: error status before the response, a stream that
// breaks or ends early, a lost response, backend down.
func init() { Register("backend2", backend2Scen) }

func backend2Scen(c *Ctx) {
	r, s := c.R, c.S
	cfg := drawCfg(r, false)
	cfg.ValidateAC = r.Chance(1, 2)
	if r.Chance(1, 4) {
		cfg.MaxProxyBlob = []int64{4096, 65536}[r.Intn(2)]
	}
	bcfg := drawCfg(r, false)
	bcfg.DepsCheck = false
	// "a peer in the same storage mode": a zstd-mode front end asks its gRPC
	// backend for cas.v2 blobs (header included), which only a zstd-mode
	// bazel-remote serves; the zstd implementation may differ.
	bcfg.Storage = cfg.Storage
	s.Policy = sim.Policy{Sticky: []int{6, 0, 4}[r.Intn(3)]}
	c.Logf("front %+v / backend %+v", cfg, bcfg)
	var front, back *world.Node
	s.StepHook = func(s *sim.Sim) {
		for _, n := range []*world.Node{front, back} {
			if n != nil && n.Cache != nil {
				world.StepInvariants(s, n, "")
			}
		}
	}
	back = c.Start("gB:", c.Dir("b"), bcfg, nil)
	if back.Err != nil {
		s.Violate("C09.starts", "gB:", "backend start-up failed: %v", back.Err)
		return
	}
	conn := world.NewSimConn(s, back)
	queue := []int{100, 4}[r.Intn(2)]
	proxy := world.NewGRPCProxy(conn, cfg.Storage, 1, queue)
	front = c.Start("g0:", c.Dir("f"), cfg, proxy)
	if front.Err != nil {
		s.Violate("C09.starts", "g0:", "start-up failed: %v", front.Err)
		return
	}
	maxProxy := cfg.MaxProxyBlob
	if maxProxy == 0 {
		maxProxy = world.MaxInt64
	}
	type k2 struct {
		kind   cache.EntryKind
		hash   string
		data   []byte
		ar     *pb.ActionResult
		inBack bool
	}
	var keys []*k2
	for i := 0; i < 3+r.Intn(3); i++ {
		sz := []int64{3000, 100, 4097, 70000, 1<<20 + 1, 2<<20 + 17}[r.Weighted(4, 3, 2, 2, 1, 1)]
		b := world.Make(world.BlobID{Kind: r.Intn(4), Seed: 16000 + i, Size: sz})
		keys = append(keys, &k2{kind: cache.CAS, hash: b.Hash, data: b.Data, inBack: r.Chance(1, 2)})
	}
	acKind := cache.RAW
	if cfg.ValidateAC {
		acKind = cache.AC
	}
	for i := 0; i < 2; i++ {
		ar := &pb.ActionResult{ExitCode: int32(40 + i), StdoutRaw: []byte(fmt.Sprintf("stdout of action %d", i)), ExecutionMetadata: &pb.ExecutedActionMetadata{Worker: "w"}}
		data, _ := proto.Marshal(ar)
		keys = append(keys, &k2{kind: acKind, hash: world.HashOf([]byte(fmt.Sprintf("b2-ac-%d", i))), data: data, ar: ar, inBack: r.Chance(1, 2)})
	}
	// seed the backend through its own API
	s.Go("gB:seed", func() {
		cl := world.NewClient(s, back)
		for _, k := range keys {
			if !k.inBack {
				continue
			}
			if k.kind == cache.CAS {
				cl.DiskPut(cache.CAS, k.hash, int64(len(k.data)), bytes.NewReader(k.data))
			} else {
				cl.UpdateAR("", k.hash, proto.Clone(k.ar).(*pb.ActionResult))
			}
		}
	})
	c.RunTasks("C14.returns")
	s.Drain()
	type op2 struct {
		kind  int // 0 get, 1 contains, 2 findmissing, 3 put, 4 toggle
		k     *k2
		via   int
		known bool
		fault *world.BFault
	}
	var ops []op2
	for i := 0; i < 6+r.Intn(12); i++ {
		o := op2{kind: r.Weighted(6, 3, 2, 3, 1), k: keys[r.Intn(len(keys))], known: r.Chance(2, 3), via: r.Intn(3)}
		if r.Chance(1, 2) {
			switch o.kind {
			case 0:
				f := []string{"err", "404", "cut", "short"}[r.Intn(4)]
				o.fault = &world.BFault{Method: "GET", Kind: f, At: []int{0, 1, 16, 45, 46, len(o.k.data) / 2, len(o.k.data) - 1, 100000}[r.Intn(8)]}
			case 1, 2:
				o.fault = &world.BFault{Method: "HEAD", Kind: "err"}
				if o.known == false && o.k.kind == cache.CAS {
					o.fault.Method = "GET" // size unknown: FetchBlob is used
				}
			case 3:
				o.fault = &world.BFault{Method: "PUT", Kind: []string{"err", "lost"}[r.Intn(2)]}
			}
		}
		ops = append(ops, o)
		fd := ""
		if o.fault != nil {
			fd = fmt.Sprintf(" fault=%s:%s@%d", o.fault.Method, o.fault.Kind, o.fault.At)
		}
		c.Logf("%d: op%d %s/%s via=%d known=%v%s", i, o.kind, o.k.kind, short(o.k.hash), o.via, o.known, fd)
	}
	sameAR := func(got []byte, want *pb.ActionResult) bool {
		var g pb.ActionResult
		if proto.Unmarshal(got, &g) != nil {
			return false
		}
		return proto.Equal(&g, want)
	}
	s.Go("g0:c0", func() {
		cl := world.NewClient(s, front)
		bc := world.NewClient(s, back)
		localHas := func(k *k2) bool { return world.Observe(front).Find(k.kind.String()+"/"+k.hash) != nil }
		backHas := func(k *k2) bool {
			return world.Observe(back).Find(map[bool]string{true: "cas/", false: "ac/"}[k.kind == cache.CAS]+k.hash) != nil
		}
		for i, o := range ops {
			conn.Disarm()
			if o.fault != nil {
				conn.Arm(o.fault)
			}
			k := o.k
			nn := int64(len(k.data))
			site := "b2-grpcproxy/" + k.kind.String()
			switch o.kind {
			case 0:
				local, inBack := localHas(k), backHas(k)
				sz := int64(-1)
				if o.known && k.kind == cache.CAS {
					sz = nn
				}
				var res world.Res
				path := "disk.Get"
				switch {
				case k.kind != cache.CAS:
					res = cl.DiskGet(k.kind, k.hash, -1, 0, false, world.FullRead)
				case o.via == 0:
					res = cl.DiskGet(cache.CAS, k.hash, sz, 0, false, world.FullRead)
				case o.via == 1:
					res, path = cl.HTTPGet("/cas/"+k.hash, false, world.FullRead), "http.GET"
				default:
					res, path = cl.BSRead(world.ReadName("", k.hash, nn, false), 0, 0, false, world.FullRead), "ByteStream.Read"
				}
				s.Settle()
				fired := o.fault != nil && o.fault.Fired
				hit := res.Found && res.OK
				s.Note("%d get %s %s -> %s n=%d fired=%v", i, short(k.hash), path, res.Code, len(res.Data), fired)
				c.Cell("b2|%s|%s|%s|fault=%s", cfg.Storage, k.kind, path, faultName(o.fault, fired))
				if hit {
					ok := bytes.Equal(res.Data, k.data)
					if k.kind != cache.CAS {
						ok = sameAR(res.Data, k.ar)
					}
					if !ok {
						s.Violate("C12.no-wrong-hit", site+"/"+path, "hit for %s returned %d bytes that are not its content (%d bytes) [fault %s]", short(k.hash), len(res.Data), nn, faultName(o.fault, fired))
					}
				}
				switch {
				case fired || conn.Down:
				case local:
					if !hit {
						s.Violate("C12.read-through", site+"/"+path, "locally present entry not served: %s %s", res.Code, res.Err)
					}
				case inBack && (k.kind != cache.CAS || nn <= maxProxy):
					if !hit {
						s.Violate("C12.read-through", site+"/"+path, "entry held by the backend (fault-free) was not served: %s %s", res.Code, res.Err)
					} else if !localHas(k) {
						s.Violate("C12.read-through", site+"/"+path, "entry served from the backend is not cached locally afterwards")
					}
				case inBack:
					if hit || localHas(k) {
						s.Violate("C18.proxy", site+"/"+path, "object of %d bytes served or cached from the backend with max_proxy_blob_size %d", nn, maxProxy)
					}
				default:
					if hit {
						s.Violate("C12.no-wrong-hit", site+"/"+path, "entry that exists nowhere was served")
					}
				}
				if e := world.Observe(front).Find(k.kind.String() + "/" + k.hash); e != nil && k.kind == cache.CAS {
					was := conn.Down
					conn.Down = true
					again := cl.DiskGet(cache.CAS, k.hash, nn, 0, false, world.FullRead)
					conn.Down = was
					if !(again.Found && again.OK && bytes.Equal(again.Data, k.data)) {
						s.Violate("C12.no-poison", site, "after a backend read [fault %s] the local entry (size %d) does not serve the content: %s %s", faultName(o.fault, fired), e.Size, again, again.Err)
					}
				}
			case 1:
				sz := int64(-1)
				if o.known {
					sz = nn
				}
				local, inBack := localHas(k), backHas(k)
				res := cl.DiskContains(k.kind, k.hash, sz)
				if k.kind != cache.CAS && r.Chance(1, 2) {
					// the HTTP front end's existence check of an action key
					h := cl.HTTPHead("/ac/" + k.hash)
					_ = h
				}
				fired := o.fault != nil && o.fault.Fired
				s.Note("%d contains %s -> %v", i, short(k.hash), res.Found)
				if res.Found && !local && !inBack {
					s.Violate("C12.no-wrong-hit", site+"/Contains", "absent entry reported present")
				}
				if !fired && !conn.Down && !res.Found && (local || (inBack && k.kind == cache.CAS && nn <= maxProxy)) {
					s.Violate("C12.read-through", site+"/Contains", "entry (local=%v backend=%v) not reported present", local, inBack)
				}
			case 2:
				var ds []*pb.Digest
				var want []string
				for _, m := range keys {
					if m.kind != cache.CAS {
						continue
					}
					ds = append(ds, world.Digest(m.hash, int64(len(m.data))))
					if !(localHas(m) || (backHas(m) && int64(len(m.data)) <= maxProxy)) {
						want = append(want, m.hash)
					}
				}
				res, missing := cl.FindMissing(ds)
				fired := o.fault != nil && o.fault.Fired
				if !res.OK {
					s.Violate("C12.degrade", site+"/FindMissingBlobs", "FindMissingBlobs failed: %s %s", res.Code, res.Err)
				} else if !fired && !conn.Down {
					var got []string
					for _, d := range missing {
						got = append(got, d.Hash)
					}
					if fmt.Sprint(got) != fmt.Sprint(want) {
						s.Violate("C10.exact", "b2-grpcproxy", "FindMissingBlobs answered %v, expected %v", shorts(got), shorts(want))
					}
				}
			case 3:
				var res world.Res
				if k.kind == cache.CAS {
					res = cl.DiskPut(cache.CAS, k.hash, nn, world.NewParkReader(s, k.data, world.DrawCuts(r, len(k.data)), -1))
				} else {
					res = cl.DiskPut(k.kind, k.hash, nn, bytes.NewReader(k.data))
				}
				s.Settle()
				fired := o.fault != nil && o.fault.Fired
				if !res.OK {
					s.Violate("C01.accept", site+"/put", "well-formed upload refused: %s %s", res.Code, res.Err)
				} else if !fired && !conn.Down && o.fault == nil {
					// write-through: a peer recovers the identical blob
					if k.kind == cache.CAS {
						got := bc.DiskGet(cache.CAS, k.hash, nn, 0, false, world.FullRead)
						if !(got.OK && bytes.Equal(got.Data, k.data)) {
							s.Violate("C12.write-through", site, "accepted upload does not read back identically from the backend instance: %s %s", got, got.Err)
						}
					} else {
						got := bc.DiskGet(cache.AC, k.hash, -1, 0, false, world.FullRead)
						if !(got.OK && sameAR(got.Data, k.ar)) {
							s.Violate("C12.write-through", site, "accepted action result does not read back from the backend instance: %s %s", got, got.Err)
						}
					}
				}
			case 4:
				conn.Down = !conn.Down
				s.Fault("backend.down-toggle")
			}
			c.Res.Ops++
			if s.Failed() {
				return
			}
		}
	})
	c.RunTasks("C12.degrade")
	c.CheckPanics("g0:c0")
	conn.Down = false
	conn.Disarm()
	if s.Drain() != sim.Quiesced || s.Failed() {
		return
	}
	world.Quiescence(s, front, world.QuiescenceOpts{}) // C12.no-leak: reservations, files (reported as C03/C04 clauses)
	world.Quiescence(s, back, world.QuiescenceOpts{})
	if fds := append(world.OpenFDs(front.Dir), world.OpenFDs(back.Dir)...); len(fds) > 0 {
		s.Violate("C12.no-leak", "b2-grpcproxy/fd", "open descriptors at quiescence: %v", fds)
	}
	if g := world.LeakedGoroutines(); len(g) > 0 {
		s.Violate("C12.no-leak", "b2-grpcproxy/goroutine", "goroutines of the server code left behind at quiescence: %v", g)
	}
}
