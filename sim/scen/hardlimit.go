package scen

import (
	"bytes"
	"os"
	"path/filepath"

	"verifsim/sim"
	"verifsim/world"

	"github.com/buchgr/bazel-remote/v2/cache"
)

// hardlimit — C17: max_size_hard_limit with the background remover starved
// for scheduler-chosen stretches. One client, so the admission rule is exact:
// an upload is admitted iff accounted + backlog + size <= limit, where the
// backlog is computed independently from the directory (bytes of files that
// are no longer indexed).
func init() { Register("hardlimit", hardLimitScen) }

// backlogBytes sums the sizes of files below the cache directory that are not
// indexed entries (evicted or replaced but not yet deleted).
func backlogBytes(n *world.Node, o world.Obs) int64 {
	indexed := map[string]bool{}
	for _, e := range o.Index {
		indexed[world.ExpectedRel(e)] = true
	}
	var sum int64
	for _, f := range world.ListFiles(n.Dir) {
		if !indexed[f.Rel] {
			sum += f.Size
		}
	}
	return sum
}

func hardLimitScen(c *Ctx) {
	r, s := c.R, c.S
	cfg := drawCfg(r, false)
	cfg.MaxSize = []int64{64 << 10, 40 << 10, 128 << 10}[r.Intn(3)]
	off := c.Opt("off", "") == "1" || r.Chance(1, 5)
	if !off {
		cfg.HardLimit = cfg.MaxSize + []int64{cfg.MaxSize / 2, cfg.MaxSize / 4, 8192, 0, 4096}[r.Weighted(4, 3, 1, 1, 1)]
	}
	s.Policy = sim.Policy{StarveRemover: true}
	c.Logf("cfg %+v (hard limit off=%v)", cfg, off)
	var n *world.Node
	s.StepHook = func(s *sim.Sim) {
		if n != nil && n.Cache != nil {
			world.StepInvariants(s, n, "")
		}
	}
	n = c.Start("g0:", c.Dir("f"), cfg, nil)
	if n.Err != nil {
		s.Violate("C09.starts", "g0:", "start-up failed: %v", n.Err)
		return
	}
	limit := cfg.HardLimit
	nOps := 8 + r.Intn(20)
	type hop struct {
		kind int // 0 upload, 1 catch-up, 2 read
		path int
		b    *world.Blob
		ac   string // non-empty: an AC put to this key (overwrites: the replaced file joins the deletion backlog)
	}
	var ops []hop
	var uploaded []*world.Blob
	paths := []int{WPDisk, WPHTTP, WPBS, WPBatch, WPHTTPZ, WPBSZ, WPARFile, WPFetch}
	for i := 0; i < nOps; i++ {
		acKeys := []string{world.HashOf([]byte("hl-ac-0")), world.HashOf([]byte("hl-ac-1"))}
		switch r.Weighted(6, 1, 2, 2) {
		case 3:
			sz := []int64{8000, 3000, 12000, 200, 5000}[r.Intn(5)]
			b := world.Make(world.BlobID{Kind: 0, Seed: 14000 + i, Size: sz})
			ops = append(ops, hop{kind: 0, path: WPDisk, b: b, ac: acKeys[r.Intn(2)]})
			c.Logf("%d: put ac %s <- %s", i, short(ops[len(ops)-1].ac), b.ID)
		case 0:
			sz := []int64{8000, 3000, 12000, 20000, 30000, 100}[r.Intn(6)]
			b := world.Make(world.BlobID{Kind: 0, Seed: 14000 + i, Size: sz})
			ops = append(ops, hop{kind: 0, path: paths[r.Weighted(4, 2, 2, 2, 1, 1, 1, 1)], b: b})
			uploaded = append(uploaded, b)
			c.Logf("%d: upload %s via %s", i, b.ID, wpNames[ops[len(ops)-1].path])
		case 1:
			ops = append(ops, hop{kind: 1})
			c.Logf("%d: remover catches up", i)
		case 2:
			if len(uploaded) > 0 {
				ops = append(ops, hop{kind: 2, b: uploaded[r.Intn(len(uploaded))]})
				c.Logf("%d: read", i)
			}
		}
	}
	catchUp := func() {
		s.Policy = sim.Policy{RemoverFirst: true}
		s.Settle()
		s.Policy = sim.Policy{StarveRemover: true}
	}
	prefill := r.Chance(2, 3)
	s.Go("g0:c0", func() {
		cl := world.NewClient(s, n)
		if prefill {
			// fill the cache so that later uploads evict (and build up a deletion backlog)
			for j := 0; world.Observe(n).Cnt.CurrentSize+12288 <= cfg.MaxSize && j < 40; j++ {
				b := world.Make(world.BlobID{Kind: 0, Seed: 14500 + j, Size: 7000})
				cl.DiskPut(cache.CAS, b.Hash, b.Size(), bytes.NewReader(b.Data))
			}
		}
		for i, o := range ops {
			switch o.kind {
			case 1:
				catchUp()
				if bl := backlogBytes(n, world.Observe(n)); bl != 0 {
					s.Violate("C17.recovers", "remover", "deletion backlog is %d bytes after the remover caught up", bl)
				}
			case 2:
				before := world.Observe(n)
				res := cl.DiskGet(cache.CAS, o.b.Hash, o.b.Size(), 0, false, world.FullRead)
				if before.Find("cas/"+o.b.Hash) != nil && !(res.OK && bytes.Equal(res.Data, o.b.Data)) {
					s.Violate("C17.reads-served", "disk.Get", "read of a present blob failed while uploads are being refused: %s %s", res.Code, res.Err)
				}
				if c2 := cl.DiskContains(cache.CAS, o.b.Hash, o.b.Size()); c2.Found != (before.Find("cas/"+o.b.Hash) != nil) {
					s.Violate("C17.reads-served", "disk.Contains", "existence check disagrees with the index")
				}
			case 0:
				s.Settle() // stragglers of earlier requests are done: no reservation in flight
				before := world.Observe(n)
				accounted := before.Cnt.CurrentSize
				backlog := backlogBytes(n, before)
				if before.Cnt.ReservedSize != 0 {
					s.Violate("C03.reserved-zero", "hardlimit", "reserved %d with no request in flight", before.Cnt.ReservedSize)
				}
				u := makeUp(r, o.path, UFNone, o.b, i)
				u.Cuts = nil
				var res world.Res
				site := wpNames[o.path]
				if o.ac != "" {
					res = cl.DiskPut(cache.AC, o.ac, o.b.Size(), bytes.NewReader(o.b.Data))
					site = "disk.Put/ac"
					if before.Find("ac/"+o.ac) != nil {
						site = "disk.Put/ac-overwrite"
					}
				} else {
					res = send(c, cl, u)
				}
				s.Settle()
				c.Res.Ops++
				after := world.Observe(n)
				within := limit <= 0 || accounted+backlog+o.b.Size() <= limit
				s.Note("%d upload %s via %s -> %s (accounted %d backlog %d size %d limit %d)", i, o.b.ID, site, res.Code, accounted, backlog, o.b.Size(), limit)
				c.Cell("%s|%s|within=%v|off=%v", site, res.Code, within, off)
				isAR := o.path == WPARFile
				switch {
				case res.OK:
					if !within && !isAR {
						s.Violate("C17.admit", site, "upload of %d bytes admitted although accounted %d + backlog %d + size exceeds the hard limit %d", o.b.Size(), accounted, backlog, limit)
					}
				case res.Code == "ResourceExhausted":
					if off {
						s.Violate("C17.off", site, "upload refused with 507/RESOURCE_EXHAUSTED although max_size_hard_limit is not set (no request in flight)")
						break
					}
					if within && !isAR {
						s.Violate("C17.refuse", site, "upload of %d bytes refused although accounted %d + backlog %d + size is within the hard limit %d", o.b.Size(), accounted, backlog, limit)
					}
					if !isAR {
						// refusal-clean: nothing stored, nothing evicted
						if len(after.Index) != len(before.Index) || after.Cnt.CurrentSize != before.Cnt.CurrentSize {
							s.Violate("C17.refusal-clean", site, "a refused upload changed the index: %d -> %d entries, %d -> %d bytes", len(before.Index), len(after.Index), before.Cnt.CurrentSize, after.Cnt.CurrentSize)
						}
						if o.ac == "" && after.Find("cas/"+o.b.Hash) != nil {
							s.Violate("C17.refusal-clean", site, "a refused upload is indexed")
						}
						if bl := backlogBytes(n, after); bl != backlog {
							s.Violate("C17.refusal-clean", site, "a refused upload left %d bytes of files behind", bl-backlog)
						}
					}
					// recovers: after the deletions caught up the retry succeeds
					catchUp()
					o2 := world.Observe(n)
					if o2.Cnt.CurrentSize+o.b.Size() <= limit && !isAR && o.ac == "" {
						u2 := makeUp(r, WPDisk, UFNone, o.b, i)
						u2.Cuts = nil
						if r2 := send(c, cl, u2); !r2.OK {
							s.Violate("C17.recovers", site, "retry after the deletions caught up failed: %s %s (accounted %d size %d limit %d)", r2.Code, r2.Err, o2.Cnt.CurrentSize, o.b.Size(), limit)
						}
					}
				case isAR:
					// composite request (AC entry + inlined blob): not judged
					s.Probe("composite_upload_failed_" + res.Code)
				default:
					s.Violate("C17.refuse", site, "upload failed with %s (not 507/RESOURCE_EXHAUSTED): %s", res.Code, res.Err)
				}
			}
			if s.Failed() {
				return
			}
		}
	})
	c.RunTasks("C14.returns")
	c.CheckPanics("g0:c0")
	s.Policy = sim.Policy{}
	if s.Drain() == sim.Quiesced && !s.Failed() {
		world.Quiescence(s, n, world.QuiescenceOpts{})
	}
	_ = os.Stat
	_ = filepath.Join
}
