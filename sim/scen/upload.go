package scen

import (
	"bytes"
	"fmt"
	"io"
	"strconv"

	"verifsim/sim"
	"verifsim/world"

	"github.com/buchgr/bazel-remote/v2/cache"
	"google.golang.org/genproto/googleapis/bytestream"
	"google.golang.org/protobuf/proto"

	pb "github.com/buchgr/bazel-remote/v2/genproto/build/bazel/remote/execution/v2"
)

// Write paths (C01: "all ten write paths").
const (
	WPDisk = iota
	WPHTTP
	WPHTTPSizeHdr // plain body, X-Digest-SizeBytes carries the size
	WPHTTPZ
	WPBatch
	WPBatchZ
	WPBS
	WPBSZ
	WPSplice
	WPSpliceNoDigest
	WPARFile
	WPARStdout
	WPARStderr
	WPFetch      // Remote Asset, origin announces Content-Length
	WPFetchNoCL  // origin without Content-Length
	WPFetchNoSRI // no checksum.sri: the server computes the digest of what it fetched
	wpCount
)

var wpNames = []string{"disk.Put", "http.PUT", "http.PUT+sizehdr", "http.PUT+zstd", "BatchUpdateBlobs", "BatchUpdateBlobs+zstd",
	"ByteStream.Write", "ByteStream.Write+zstd", "SpliceBlob", "SpliceBlob-nodigest", "AR.output_file", "AR.stdout_raw", "AR.stderr_raw", "FetchBlob", "FetchBlob-nocl", "FetchBlob-nosri"}

func wpIsZstd(p int) bool { return p == WPHTTPZ || p == WPBatchZ || p == WPBSZ }

// Upload faults. 0 is "none".
const (
	UFNone = iota
	UFFlip
	UFTrunc
	UFExtend
	UFSizeMinus
	UFSizePlus
	UFHash
	UFAbort
	UFZGarbage
	UFZCut
	UFZTrail
	UFEncoding
	ufCount
)

var ufNames = []string{"none", "flip", "trunc", "extend", "size-1", "size+1", "hash", "abort", "zstd-garbage", "zstd-cut", "zstd-trailing", "encoding"}

// Up is one concrete upload attempt.
type Up struct {
	Path     int
	Fault    int
	B        *world.Blob // the blob the client means to upload
	DeclHash string
	DeclSize int64
	Payload  []byte // logical bytes actually sent
	Wire     []byte // transport bytes for zstd paths
	Cuts     []int
	AbortAt  int
	Chunks   []*world.Blob // SpliceBlob: the parts (must be uploaded before)
	ARSize   int64         // AR paths: serialised size of the ActionResult as sent
	seq      int
}

func (u *Up) String() string {
	return fmt.Sprintf("%s %s fault=%s decl=%s/%d sent=%d cuts=%v", wpNames[u.Path], u.B.ID, ufNames[u.Fault], short(u.DeclHash), u.DeclSize, len(u.Payload), u.Cuts)
}

// applicable says whether a fault can be expressed on a path at all.
func faultApplies(path, fault int, size int64) bool {
	if path == WPFetchNoSRI {
		return fault == UFNone || fault == UFAbort
	}
	switch fault {
	case UFNone:
		return true
	case UFZGarbage, UFZCut, UFZTrail:
		return wpIsZstd(path)
	case UFEncoding:
		return path == WPHTTP || path == WPBatch
	case UFAbort:
		return path == WPDisk || path == WPHTTP || path == WPHTTPZ || path == WPBS || path == WPBSZ || path == WPFetch || path == WPFetchNoCL || path == WPFetchNoSRI
	case UFExtend:
		// with a Content-Length the transport never delivers the surplus
		return path != WPHTTP && path != WPFetch && path != WPSplice && path != WPSpliceNoDigest
	case UFTrunc:
		return path != WPSplice && path != WPSpliceNoDigest && size > 1
	case UFFlip:
		return path != WPSplice && path != WPSpliceNoDigest
	case UFSizeMinus:
		return size > 1 && path != WPSpliceNoDigest && path != WPFetchNoCL
	case UFSizePlus:
		return path != WPSpliceNoDigest && path != WPFetchNoCL
	case UFHash:
		return path != WPSpliceNoDigest
	}
	return false
}

var otherHash = world.HashOf([]byte("some other content"))

// makeUp materialises an upload of b through path with one fault.
func makeUp(r sim.Rand, path, fault int, b *world.Blob, seq int) *Up {
	u := &Up{Path: path, Fault: fault, B: b, DeclHash: b.Hash, DeclSize: b.Size(), Payload: b.Data, AbortAt: -1, seq: seq}
	n := len(b.Data)
	switch fault {
	case UFFlip:
		d := append([]byte(nil), b.Data...)
		d[r.Intn(n)] ^= 1 << uint(r.Intn(8))
		u.Payload = d
	case UFTrunc:
		k := 1
		if r.Chance(1, 2) && n > 2 {
			k = 1 + r.Intn(n-1)
		}
		u.Payload = b.Data[:n-k]
	case UFExtend:
		k := 1 + r.Intn(3)*2047
		u.Payload = append(append([]byte(nil), b.Data...), bytes.Repeat([]byte{0x5a}, k)...)
	case UFSizeMinus:
		u.DeclSize = b.Size() - 1
	case UFSizePlus:
		u.DeclSize = b.Size() + 1
	case UFHash:
		u.DeclHash = otherHash
		if n > 0 && r.Chance(1, 3) {
			// the one hash servers special-case: that of the empty blob
			u.DeclHash = world.EmptySha256
		}
	case UFAbort:
		u.AbortAt = r.Intn(n)
	}
	if wpIsZstd(path) {
		u.Wire = world.Compress(u.Payload, r.Chance(1, 2))
		switch fault {
		case UFZGarbage:
			u.Wire = world.Make(world.BlobID{Kind: 0, Seed: 777 + seq, Size: int64(16 + r.Intn(300))}).Data
		case UFZCut:
			if len(u.Wire) > 2 {
				u.Wire = u.Wire[:1+r.Intn(len(u.Wire)-1)]
			}
		case UFZTrail:
			u.Wire = append(append([]byte(nil), u.Wire...), []byte("trailing garbage after the frame")...)
		}
		if fault == UFAbort {
			u.AbortAt = r.Intn(len(u.Wire))
		}
		u.Cuts = world.DrawCuts(r, len(u.Wire))
	} else {
		u.Cuts = world.DrawCuts(r, len(u.Payload))
	}
	return u
}

// send performs the upload and reports whether the server acknowledged it.
func send(c *Ctx, cl *world.Client, u *Up) world.Res {
	s := c.S
	if u.Fault != UFNone {
		s.Fault("upload." + ufNames[u.Fault])
	}
	body := func(data []byte) *world.ParkReader { return world.NewParkReader(s, data, u.Cuts, u.AbortAt) }
	switch u.Path {
	case WPDisk:
		return cl.DiskPut(cache.CAS, u.DeclHash, u.DeclSize, body(u.Payload))
	case WPHTTP:
		q := world.HTTPReq{Method: "PUT", Path: "/cas/" + u.DeclHash, CLen: u.DeclSize, FailAt: -1, ParkAt: -1,
			Body: world.LimitBody(body(u.Payload), u.DeclSize), Header: map[string]string{}}
		if u.Fault == UFEncoding {
			q.Header["Content-Encoding"] = "gzip"
		}
		r, _ := cl.HTTP(q)
		return r
	case WPHTTPSizeHdr:
		q := world.HTTPReq{Method: "PUT", Path: "/cas/" + u.DeclHash, CLen: int64(len(u.Payload)), FailAt: -1, ParkAt: -1,
			Body: world.LimitBody(body(u.Payload), int64(len(u.Payload))), Header: map[string]string{"X-Digest-SizeBytes": strconv.FormatInt(u.DeclSize, 10)}}
		r, _ := cl.HTTP(q)
		return r
	case WPHTTPZ:
		q := world.HTTPReq{Method: "PUT", Path: "/cas/" + u.DeclHash, CLen: int64(len(u.Wire)), FailAt: -1, ParkAt: -1,
			Body:   world.LimitBody(body(u.Wire), int64(len(u.Wire))),
			Header: map[string]string{"X-Digest-SizeBytes": strconv.FormatInt(u.DeclSize, 10), "Content-Encoding": "zstd"}}
		r, _ := cl.HTTP(q)
		return r
	case WPBatch, WPBatchZ:
		it := world.BatchItem{Hash: u.DeclHash, Size: u.DeclSize, Data: u.Payload}
		if u.Path == WPBatchZ {
			it.Data, it.Zstd = u.Wire, true
		}
		if u.Fault == UFEncoding {
			it.Comp = int32(pb.Compressor_DEFLATE)
		}
		r, per := cl.BatchUpdate([]world.BatchItem{it})
		if r.OK && len(per) == 1 {
			r.Code = per[0]
			r.OK = per[0] == "OK"
		} else if r.OK {
			r.OK = false
			r.Code = "NoResponse"
		}
		return r
	case WPBS, WPBSZ:
		z := u.Path == WPBSZ
		data := u.Payload
		if z {
			data = u.Wire
		}
		name := world.WriteName("", fmt.Sprintf("uuid-%d", u.seq), u.DeclHash, u.DeclSize, z, "")
		var endErr error
		if u.Fault == UFAbort {
			data = data[:u.AbortAt]
			endErr = world.ErrInjected
		}
		msgs := world.SplitMsgs(name, data, u.Cuts, u.Fault != UFAbort, true)
		r, ws := cl.BSWrite(msgs, endErr)
		_ = ws
		return r
	case WPSplice, WPSpliceNoDigest:
		var ds []*pb.Digest
		for _, ch := range u.Chunks {
			ds = append(ds, world.Digest(ch.Hash, ch.Size()))
		}
		var bd *pb.Digest
		if u.Path == WPSplice {
			bd = world.Digest(u.DeclHash, u.DeclSize)
		}
		r, got := cl.Splice(bd, ds)
		if r.OK && got != nil && (got.Hash != u.B.Hash || got.SizeBytes != u.B.Size()) && u.Fault == UFNone {
			s.Violate("C01.ack-match", wpNames[u.Path], "SpliceBlob answered digest %s/%d for a blob whose digest is %s/%d", short(got.Hash), got.SizeBytes, short(u.B.Hash), u.B.Size())
		}
		return r
	case WPARFile, WPARStdout, WPARStderr:
		ar := &pb.ActionResult{ExitCode: int32(u.seq)}
		d := world.Digest(u.DeclHash, u.DeclSize)
		switch u.Path {
		case WPARFile:
			ar.OutputFiles = []*pb.OutputFile{{Path: "out/f", Digest: d, Contents: u.Payload}}
		case WPARStdout:
			ar.StdoutRaw, ar.StdoutDigest = u.Payload, d
		default:
			ar.StderrRaw, ar.StderrDigest = u.Payload, d
		}
		key := world.HashOf([]byte(fmt.Sprintf("action-%d", u.seq)))
		u.ARSize = int64(proto.Size(ar))
		r, _ := cl.UpdateAR("", key, ar)
		return r
	case WPFetchNoSRI:
		name := fmt.Sprintf("obj%d", u.seq)
		o := &world.OriginObj{Body: u.Payload, CLen: int64(len(u.Payload)), BreakAt: -1}
		if u.seq%2 == 0 {
			o.CLen = -1
		}
		if u.Fault == UFAbort {
			o.BreakAt = u.AbortAt
		}
		world.SetOrigin(name, o)
		r, d := cl.FetchBlob([]string{"http://origin/" + name}, "")
		if r.OK && (d == nil || d.Hash != u.B.Hash || d.SizeBytes != u.B.Size()) {
			s.Violate("C01.ack-match", wpNames[u.Path], "FetchBlob without checksum answered digest %v for fetched content %s/%d", d, short(u.B.Hash), u.B.Size())
		}
		return r
	case WPFetch, WPFetchNoCL:
		name := fmt.Sprintf("obj%d", u.seq)
		o := &world.OriginObj{Body: u.Payload, CLen: u.DeclSize, BreakAt: -1}
		if u.Path == WPFetchNoCL {
			o.CLen = -1
		}
		if u.Fault == UFTrunc && u.Path == WPFetch {
			o.BreakAt = len(u.Payload) // the connection ends before Content-Length bytes arrived
		}
		if u.Fault == UFAbort {
			o.BreakAt = u.AbortAt
		}
		if o.CLen >= 0 && int64(len(o.Body)) > o.CLen {
			o.Body = o.Body[:o.CLen] // a transport never delivers more than Content-Length
		}
		if o.CLen >= 0 && int64(len(o.Body)) < o.CLen && o.BreakAt < 0 {
			o.BreakAt = len(o.Body) // ... and reports a short body as an error
		}
		world.SetOrigin(name, o)
		r, d := cl.FetchBlob([]string{"http://origin/" + name}, u.DeclHash)
		if r.OK && d != nil && (d.Hash != u.DeclHash) {
			s.Violate("C01.ack-match", wpNames[u.Path], "FetchBlob answered digest %s for checksum.sri %s", short(d.Hash), short(u.DeclHash))
		}
		return r
	}
	panic("unknown write path")
}

// presence observes whether digest (hash,size) is present, three ways.
type presence struct {
	fmb, head, file bool
	files           int  // files named for the hash, whatever their size
	byHash          bool // an entry for the hash is indexed, whatever its size
}

func (p presence) any() bool { return p.fmb || p.head || p.file }
func (p presence) all() bool { return p.fmb && p.head && p.file }

func observePresence(cl *world.Client, hash string, size int64) presence {
	var p presence
	_, missing := cl.FindMissing([]*pb.Digest{world.Digest(hash, size)})
	p.fmb = len(missing) == 0
	h := cl.HTTPHead("/cas/" + hash)
	p.head = h.Found && (h.Size == size)
	o := world.Observe(cl.N)
	e := o.Find("cas/" + hash)
	p.file = e != nil && e.Size == size
	p.byHash = e != nil
	p.files = len(filesFor(cl.N, hash))
	return p
}

// filesFor lists files in the CAS directory named for hash.
func filesFor(n *world.Node, hash string) []string {
	var out []string
	for _, f := range world.ListFiles(n.Dir + "/cas.v2/" + hash[:2]) {
		if len(f.Rel) >= 64 && f.Rel[:64] == hash {
			out = append(out, f.Rel)
		}
	}
	return out
}

// readBack reads a CAS blob through a drawn read path and returns the result.
func readBack(r sim.Rand, cl *world.Client, hash string, size int64) (world.Res, string) {
	switch r.Intn(5) {
	case 0:
		return cl.DiskGet(cache.CAS, hash, size, 0, false, world.FullRead), "disk.Get"
	case 1:
		return cl.HTTPGet("/cas/"+hash, false, world.FullRead), "http.GET"
	case 2:
		return cl.HTTPGet("/cas/"+hash, true, world.FullRead), "http.GET+zstd"
	case 3:
		return cl.BSRead(world.ReadName("", hash, size, false), 0, 0, false, world.FullRead), "ByteStream.Read"
	default:
		return cl.BSRead(world.ReadName("", hash, size, true), 0, 0, true, world.FullRead), "ByteStream.Read+zstd"
	}
}

func init() { Register("upload", uploadScen) }

// uploadScen — family S1 for C01 (and C18 with opt limits=1): a sequence of
// uploads, each through one write path with zero or one fault, against a roomy
// cache; after each: acknowledged <=> content matches the declared digest,
// acknowledged => present (three observers) and readable, rejected => absent.
func uploadScen(c *Ctx) {
	r, s := c.R, c.S
	cfg := drawCfg(r, false)
	limits := c.Opt("limits", "") == "1"
	if limits {
		cfg.MaxBlob = []int64{1 << 10, 4096, 65536, 1<<20 + 1, 100}[r.Intn(5)]
	}
	c.Logf("cfg %+v", cfg)
	var n *world.Node
	s.StepHook = func(s *sim.Sim) {
		if n != nil {
			world.StepInvariants(s, n, "")
		}
	}
	n = c.Start("g0:", c.Dir("f"), cfg, nil)
	if n.Err != nil {
		s.Violate("C09.starts", "g0:", "start-up failed on an empty directory: %v", n.Err)
		return
	}
	type done struct {
		u     *Up
		acked bool
	}
	var hist []done
	nUps := 4 + r.Intn(10)
	// the plan is drawn first, then executed by one client task
	var ups []*Up
	var pre [][]*world.Blob // splice parts to upload before
	var sibling *Up
	for i := 0; i < nUps; i++ {
		path := r.Intn(wpCount)
		var size int64
		if limits {
			size = cfg.MaxBlob + []int64{0, 1, -1, 4096, 100000}[r.Intn(5)]
			if size < 1 {
				size = 1
			}
		} else {
			size = world.SizeClasses[r.Weighted(6, 2, 2, 3, 2, 2, 1, 1, 1, 1, 1)]
		}
		b := world.Make(world.BlobID{Kind: r.Intn(4), Seed: 1000 + i, Size: size})
		fault := UFNone
		if !limits && r.Chance(1, 2) {
			fault = 1 + r.Intn(ufCount-1)
			if !faultApplies(path, fault, size) {
				fault = UFNone
			}
		}
		// A damaged upload right after the intact upload of a sibling (same
		// size, same bytes except 16 per 4 KiB): whatever the server keeps
		// around from the previous request completes this one "correctly".
		if sibling != nil && r.Chance(2, 3) {
			path, size = sibling.Path, sibling.B.Size()
			b = world.Make(world.BlobID{Kind: 3, Seed: 1000 + i, Size: size})
			fault = []int{UFTrunc, UFAbort, UFZCut, UFSizePlus}[r.Intn(4)]
			if !faultApplies(path, fault, size) {
				fault = UFTrunc
			}
			if !faultApplies(path, fault, size) {
				fault = UFNone
			}
			s.Probe("sibling_after_intact")
		}
		sibling = nil
		var parts []*world.Blob
		if path == WPSplice || path == WPSpliceNoDigest {
			// b := concat(parts)
			k := 1 + r.Intn(3)
			var all []byte
			for j := 0; j < k; j++ {
				ps := size / int64(k)
				if j == k-1 {
					ps = size - ps*int64(k-1)
				}
				if ps < 1 {
					ps = 1
				}
				p := world.Make(world.BlobID{Kind: 0, Seed: 20000 + i*10 + j, Size: ps})
				parts = append(parts, p)
				all = append(all, p.Data...)
			}
			b = world.FromBytes(world.BlobID{Kind: 9, Seed: -1, Size: int64(len(all))}, all)
			if fault != UFNone && !faultApplies(path, fault, b.Size()) {
				fault = UFNone
			}
		}
		u := makeUp(r, path, fault, b, i)
		u.Chunks = parts
		if b.ID.Kind == 3 && fault == UFNone && !limits && path != WPSplice && path != WPSpliceNoDigest {
			sibling = u
		}
		ups = append(ups, u)
		pre = append(pre, parts)
		c.Logf("%d: %s", i, u)
	}
	restart := r.Chance(1, 3)
	s.Go("g0:c0", func() {
		cl := world.NewClient(s, n)
		for i, u := range ups {
			for _, p := range pre[i] {
				if res := cl.DiskPut(cache.CAS, p.Hash, p.Size(), bytes.NewReader(p.Data)); !res.OK && !limits {
					s.Violate("C01.accept", "disk.Put", "splice part refused: %s", res.Err)
				}
			}
			before := observePresence(cl, u.DeclHash, u.DeclSize)
			res := send(c, cl, u)
			c.Res.Ops++
			s.Note("%d %s -> ok=%v %s", i, wpNames[u.Path], res.OK, res.Code)
			judgeUpload(c, cl, cfg, u, before, res, limits)
			hist = append(hist, done{u, res.OK})
		}
	})
	c.RunTasks("C14.returns")
	c.CheckPanics("g0:c0")
	if s.Drain() != sim.Quiesced {
		s.Violate("C14.returns", "drain", "background work did not drain")
		return
	}
	world.Quiescence(s, n, world.QuiescenceOpts{})
	if fds := world.OpenFDs(n.Dir); len(fds) > 0 {
		s.Violate("C14.fds", "fd", "open descriptors into the cache directory with no request in flight: %v", fds)
	}
	if !restart || s.Failed() {
		return
	}
	// "an acknowledged blob is thereafter reported present and readable":
	// also after a clean restart, possibly under the other storage mode/codec.
	cfg2 := cfg
	if r.Chance(1, 2) {
		cfg2.Storage = map[string]string{"zstd": "uncompressed", "uncompressed": "zstd"}[cfg.Storage]
	}
	if r.Chance(1, 2) {
		cfg2.Zstd = map[string]string{"go": "cgo", "cgo": "go"}[cfg.Zstd]
	}
	c.Logf("restart with %+v", cfg2)
	n2 := c.Start("g1:", n.Dir, cfg2, nil)
	if n2.Err != nil {
		s.Violate("C09.starts", "g1:", "restart failed: %v", n2.Err)
		return
	}
	n = n2
	s.Go("g1:c0", func() {
		cl := world.NewClient(s, n2)
		for _, h := range hist {
			if !h.acked || h.u.Fault != UFNone {
				continue
			}
			p := observePresence(cl, h.u.B.Hash, h.u.B.Size())
			if !p.all() {
				s.Violate("C01.ack-present", wpNames[h.u.Path]+"/restart", "acknowledged blob %s not reported present after a clean restart: %+v", h.u.B.ID, p)
				continue
			}
			if h.u.B.Size() > 0 {
				res, via := readBack(r, cl, h.u.B.Hash, h.u.B.Size())
				if !res.OK || !bytes.Equal(res.Data, h.u.B.Data) {
					s.Violate("C01.ack-present", wpNames[h.u.Path]+"/restart", "acknowledged blob %s not readable via %s after restart: %s", h.u.B.ID, via, res)
				}
			}
		}
	})
	c.RunTasks("C14.returns")
	c.CheckPanics("g1:c0")
	if s.Drain() == sim.Quiesced {
		world.Quiescence(s, n2, world.QuiescenceOpts{})
	}
}

// judgeUpload applies the clauses of C01/C18 to one upload.
func judgeUpload(c *Ctx, cl *world.Client, cfg world.NodeCfg, u *Up, before presence, res world.Res, limits bool) {
	s := c.S
	path := wpNames[u.Path]
	c.Cell("%s|%s|%s|%s|%s", path, cfg.Storage, cfg.Zstd, ufNames[u.Fault], sizeClass(u.B.Size()))
	tooBig := u.DeclSize > cfg.EffMaxBlob() || u.B.Size() > cfg.EffMaxBlob()
	s.Settle() // let stragglers of the request finish before judging what it left behind
	after := observePresence(cl, u.DeclHash, u.DeclSize)
	if limits {
		if tooBig {
			if res.OK {
				s.Violate("C18.reject-over", path, "item of %d bytes accepted with max_blob_size %d", u.B.Size(), cfg.MaxBlob)
			} else if res.Code != "InvalidArgument" && res.Code != "NotFound" && res.Code != "OutOfRange" {
				s.Violate("C18.reject-over", path, "oversize item refused with %s, not a client error: %s", res.Code, res.Err)
			}
			if after.any() && !before.any() {
				s.Violate("C18.reject-over", path, "oversize item is present after the refusal: %+v", after)
			}
			if fs := filesFor(cl.N, u.DeclHash); len(fs) > before.files {
				s.Violate("C18.reject-over", path, "oversize item left a file: %v", fs)
			}
			return
		}
		isAR := u.Path >= WPARFile && u.Path <= WPARStderr
		if isAR && u.ARSize > cfg.EffMaxBlob() {
			// the ActionResult message carrying the blob is itself an item over
			// the limit (the server only ever adds to it): it must be refused
			s.Probe("ar_message_over_limit")
			if res.OK {
				s.Violate("C18.reject-over", path+"/ac-entry", "ActionResult of %d serialised bytes accepted with max_blob_size %d", u.ARSize, cfg.MaxBlob)
			}
			return
		}
		if !res.OK && isAR && u.ARSize+128 > cfg.EffMaxBlob() {
			s.Probe("ar_message_near_limit") // the server adds worker metadata before storing
			return
		}
		if !res.OK {
			s.Violate("C18.accept-at", path, "item of %d bytes refused with max_blob_size %d: %s %s", u.B.Size(), cfg.MaxBlob, res.Code, res.Err)
			return
		}
	}
	matches := world.HashOf(u.Payload) == u.DeclHash && int64(len(u.Payload)) == u.DeclSize && u.Fault == UFNone
	if (u.Path == WPFetch || u.Path == WPFetchNoCL) && (u.DeclHash == world.EmptySha256 || before.byHash) {
		// FetchBlob carries a checksum but no size: "already in the CAS" is
		// decided by hash alone (the empty blob is always there; one-byte
		// blobs of different uploads may coincide)
		c.S.Probe("fetch_with_checksum_of_a_present_blob")
		return
	}
	if before.any() {
		// already present: the protocol allows an early OK; content must stay right
		c.S.Probe("upload_to_present_digest")
	} else if matches {
		if !res.OK {
			s.Violate("C01.accept", path, "well-formed upload %s refused: %s %s", u, res.Code, res.Err)
			return
		}
	} else {
		if res.OK {
			s.Violate("C01.ack-match", path, "upload acknowledged although the bytes do not match the declared digest: %s", u)
		}
		if after.any() {
			s.Violate("C01.reject", path, "rejected/invalid upload made the claimed digest present (%+v): %s", after, u)
		}
		if fs := filesFor(cl.N, u.DeclHash); len(fs) > before.files && !res.OK {
			s.Violate("C01.reject", path, "rejected upload left a file named for the claimed hash: %v", fs)
		}
		return
	}
	if !res.OK {
		return
	}
	// acknowledged (or already present): reported present and readable
	if u.B.Size() == 0 {
		return
	}
	if matches && !after.all() {
		s.Violate("C01.ack-present", path, "acknowledged blob %s is not reported present by every observer: %+v", u.B.ID, after)
		return
	}
	if matches {
		rb, via := readBack(c.R, cl, u.B.Hash, u.B.Size())
		if !rb.OK || !bytes.Equal(rb.Data, u.B.Data) {
			s.Violate("C01.ack-present", path, "acknowledged blob %s does not read back via %s: %s %s", u.B.ID, via, rb, rb.Err)
		}
	}
}

func sizeClass(n int64) string {
	switch {
	case n <= 1:
		return "1"
	case n < 4096:
		return "<4k"
	case n <= 4097:
		return "~4k"
	case n < 1<<20-1:
		return "<1M"
	case n <= 1<<20+1:
		return "~1M"
	default:
		return ">1M"
	}
}

var _ = io.EOF
var _ = bytestream.WriteRequest{}
