package scen

import (
	"bytes"
	"fmt"
	"os"
	"strings"

	"verifsim/sim"
	"verifsim/world"

	"github.com/buchgr/bazel-remote/v2/cache"
	"google.golang.org/protobuf/encoding/protojson"
	"google.golang.org/protobuf/proto"
	"google.golang.org/protobuf/types/known/timestamppb"

	pb "github.com/buchgr/bazel-remote/v2/genproto/build/bazel/remote/execution/v2"
)

// ac — scenario family S1 for C06, C11 and the instance-mangling half of C15:
// generated ActionResults (valid, and with each invalid field kind) are
// uploaded through gRPC and HTTP (proto / JSON / zstd), with every referenced
// blob independently present, absent or present with another size; then
// queried through GetActionResult, HTTP GET and HEAD.
func init() { Register("ac", acScen) }

type acRef struct {
	d     *pb.Digest
	blob  *world.Blob
	state int // 0 present, 1 absent, 2 stored with another size than referenced
	what  string
}

type acCase struct {
	key      string
	instance string
	ar       *pb.ActionResult
	valid    bool
	invalid  string
	refs     []acRef
	inlineOK bool // inline contents match their digests
	big      bool // three or four output files of 1.5 MiB each
	trees    []*world.Blob
	via      int // 0 gRPC, 1 HTTP proto, 2 HTTP JSON, 3 HTTP proto+zstd
}

// Long names that agree in a long prefix (63, 64, 65, 128 bytes) or suffix: a
// key derivation that looks at a bounded part of the name confuses them.
const longPrefix = "projects/acme-build-infra/locations/europe-west4/instances/defau" // 64 bytes

var instances = []string{"", "main", "a/b", "x/ac/y", "cas", "ünï/cödé", "blobs/z", "my instance", "100%", "a%20b",
	longPrefix, longPrefix + "a", longPrefix + "b", longPrefix[:63], longPrefix + longPrefix + "x", longPrefix + longPrefix + "y",
	"a/" + longPrefix, "b/" + longPrefix}

// near returns the names that share a long prefix or suffix with name.
func near(name string) []string {
	var out []string
	if len(name) < 60 {
		return nil
	}
	for _, o := range instances {
		if o != name && len(o) >= 60 && (o[:60] == name[:60] || o[len(o)-60:] == name[len(name)-60:]) {
			out = append(out, o)
		}
	}
	return out
}

func wellFormedDigest(d *pb.Digest) bool {
	if d == nil {
		return true
	}
	if d.SizeBytes < 0 || len(d.Hash) != 64 {
		return false
	}
	for _, c := range d.Hash {
		if !(c >= '0' && c <= '9' || c >= 'a' && c <= 'f') {
			return false
		}
	}
	return true
}

// wellFormed is the harness's own restatement of "parses as an ActionResult
// whose paths and digests are well formed".
func wellFormed(ar *pb.ActionResult) bool {
	if ar == nil {
		return false
	}
	for _, f := range ar.OutputFiles {
		if f == nil || f.Path == "" || strings.HasPrefix(f.Path, "/") || f.Digest == nil || !wellFormedDigest(f.Digest) {
			return false
		}
	}
	for _, d := range ar.OutputDirectories {
		if d == nil || strings.HasPrefix(d.Path, "/") || d.TreeDigest == nil || !wellFormedDigest(d.TreeDigest) {
			return false
		}
	}
	for _, l := range [][]*pb.OutputSymlink{ar.OutputSymlinks, ar.OutputFileSymlinks, ar.OutputDirectorySymlinks} {
		for _, s := range l {
			if s == nil || s.Path == "" || s.Target == "" || strings.HasPrefix(s.Path, "/") {
				return false
			}
		}
	}
	return wellFormedDigest(ar.StdoutDigest) && wellFormedDigest(ar.StderrDigest)
}

func acScen(c *Ctx) {
	r, s := c.R, c.S
	cfg := drawCfg(r, false)
	cfg.ValidateAC, cfg.DepsCheck = true, true
	cfg.Mangle = r.Chance(1, 2)
	c.Logf("cfg %+v", cfg)
	var n *world.Node
	s.StepHook = func(s *sim.Sim) {
		if n != nil && n.Cache != nil {
			world.StepInvariants(s, n, "")
		}
	}
	n = c.Start("g0:", c.Dir("f"), cfg, nil)
	if n.Err != nil {
		s.Violate("C09.starts", "g0:", "start-up failed: %v", n.Err)
		return
	}
	seq := 0
	newBlob := func() *world.Blob {
		seq++
		return world.Make(world.BlobID{Kind: r.Intn(3), Seed: 9000 + seq, Size: []int64{100, 3000, 4097, 64, 70000}[r.Weighted(4, 3, 2, 1, 1)]}) // sizes large enough for contents to be unique
	}
	var toStore []*world.Blob
	mkRef := func(what string) acRef {
		b := newBlob()
		st := r.Weighted(6, 2, 1)
		ref := acRef{d: world.Digest(b.Hash, b.Size()), blob: b, state: st, what: what}
		switch st {
		case 0:
			toStore = append(toStore, b)
		case 2:
			toStore = append(toStore, b)
			ref.d = world.Digest(b.Hash, b.Size()+1)
		}
		if r.Chance(1, 12) {
			ref = acRef{d: world.Digest(world.EmptySha256, 0), what: what + "(empty)"}
		}
		return ref
	}
	mkCase := func(i int, key string) *acCase {
		cs := &acCase{key: key, valid: true, inlineOK: true, via: r.Intn(4)}
		if cfg.Mangle || r.Chance(1, 3) {
			cs.instance = instances[r.Intn(len(instances))]
		}
		ar := &pb.ActionResult{ExitCode: int32(i + 1)}
		nf := r.Weighted(3, 4, 3, 2, 1)
		if nf == 4 {
			nf = 21 + r.Intn(5) // crosses the internal batch of 20
		}
		// Sometimes the referenced outputs are large enough for the inlining
		// budget to matter: the hit must still fit one default gRPC message.
		cs.big = r.Chance(1, 10)
		if cs.big {
			nf = 3 + r.Intn(2)
		}
		for j := 0; j < nf; j++ {
			of := &pb.OutputFile{Path: fmt.Sprintf("out/f%d", j), IsExecutable: r.Chance(1, 4)}
			if cs.big {
				seq++
				b := world.Make(world.BlobID{Kind: 0, Seed: 9000 + seq, Size: 1<<20 + 1<<19 + int64(j)})
				toStore = append(toStore, b)
				ref := acRef{d: world.Digest(b.Hash, b.Size()), blob: b, state: 0, what: of.Path}
				of.Digest = ref.d
				cs.refs = append(cs.refs, ref)
				ar.OutputFiles = append(ar.OutputFiles, of)
				continue
			}
			if r.Chance(1, 4) {
				b := newBlob()
				of.Digest, of.Contents = world.Digest(b.Hash, b.Size()), b.Data
				if r.Chance(1, 8) {
					of.Contents = append([]byte(nil), b.Data...)
					of.Contents[0] ^= 0xff
					cs.inlineOK = false
					if r.Chance(1, 2) {
						// ... while a blob with the declared digest is already stored
						toStore = append(toStore, b)
					}
				}
			} else {
				ref := mkRef(of.Path)
				of.Digest = ref.d
				cs.refs = append(cs.refs, ref)
			}
			ar.OutputFiles = append(ar.OutputFiles, of)
		}
		for j := 0; j < r.Weighted(5, 2, 1); j++ {
			seq++
			root := &pb.Directory{Symlinks: []*pb.SymlinkNode{{Name: fmt.Sprintf("uniq-%d", seq), Target: "x"}}} // keeps Tree blobs distinct
			tree := &pb.Tree{Root: root}
			var sub []acRef
			for k := 0; k < r.Intn(3); k++ {
				ref := mkRef(fmt.Sprintf("dir%d/root/f%d", j, k))
				root.Files = append(root.Files, &pb.FileNode{Name: fmt.Sprintf("f%d", k), Digest: ref.d})
				sub = append(sub, ref)
			}
			for k := 0; k < r.Intn(3); k++ {
				child := &pb.Directory{}
				for m := 0; m < 1+r.Intn(2); m++ {
					ref := mkRef(fmt.Sprintf("dir%d/child%d/f%d", j, k, m))
					child.Files = append(child.Files, &pb.FileNode{Name: fmt.Sprintf("g%d", m), Digest: ref.d})
					sub = append(sub, ref)
				}
				cd, _ := proto.Marshal(child)
				root.Directories = append(root.Directories, &pb.DirectoryNode{Name: fmt.Sprintf("c%d", k), Digest: world.Digest(world.HashOf(cd), int64(len(cd)))})
				tree.Children = append(tree.Children, child)
			}
			td, _ := proto.Marshal(tree)
			tb := world.FromBytes(world.BlobID{Kind: 7, Seed: -1, Size: int64(len(td))}, td)
			tref := acRef{d: world.Digest(tb.Hash, tb.Size()), blob: tb, state: r.Weighted(6, 1), what: fmt.Sprintf("dir%d/tree", j)}
			if tref.state == 0 {
				toStore = append(toStore, tb)
				cs.refs = append(cs.refs, sub...)
			}
			cs.refs = append(cs.refs, tref)
			ar.OutputDirectories = append(ar.OutputDirectories, &pb.OutputDirectory{Path: fmt.Sprintf("out/d%d", j), TreeDigest: tref.d})
		}
		for j, which := range []string{"stdout", "stderr"} {
			switch r.Weighted(4, 3, 2, 1) {
			case 1:
				ref := mkRef(which)
				cs.refs = append(cs.refs, ref)
				if j == 0 {
					ar.StdoutDigest = ref.d
				} else {
					ar.StderrDigest = ref.d
				}
			case 2:
				b := newBlob()
				if j == 0 {
					ar.StdoutRaw = b.Data
				} else {
					ar.StderrRaw = b.Data
				}
			case 3:
				// raw bytes and their digest: the digest is a reference like any
				// other. The gRPC upload path stores the raw bytes in the CAS, the
				// HTTP path does not.
				b := newBlob()
				ref := acRef{d: world.Digest(b.Hash, b.Size()), blob: b, state: 1, what: which + "(raw+digest)"}
				if cs.via == 0 {
					ref.state = 0
				}
				cs.refs = append(cs.refs, ref)
				if j == 0 {
					ar.StdoutRaw, ar.StdoutDigest = b.Data, ref.d
				} else {
					ar.StderrRaw, ar.StderrDigest = b.Data, ref.d
				}
			}
		}
		if r.Chance(1, 3) {
			ar.OutputSymlinks = append(ar.OutputSymlinks, &pb.OutputSymlink{Path: "out/link", Target: "f0"})
		}
		if r.Chance(1, 2) {
			md := &pb.ExecutedActionMetadata{Worker: []string{"", "builder-7"}[r.Intn(2)]}
			if r.Chance(2, 3) {
				md.QueuedTimestamp = &timestamppb.Timestamp{Seconds: 1700000000 + int64(i), Nanos: 42}
				md.ExecutionCompletedTimestamp = &timestamppb.Timestamp{Seconds: 1700000100 + int64(i)}
			}
			ar.ExecutionMetadata = md
		}
		// one invalid field kind
		if r.Chance(1, 4) {
			bad := &pb.Digest{Hash: strings.Repeat("ab", 32), SizeBytes: 5}
			kinds := []string{"neg-size", "short-hash", "upper-hash", "nonhex-hash", "empty-path", "abs-path", "nil-file", "nil-digest", "nil-dir", "symlink-empty-target", "nil-symlink", "abs-dir"}
			k := kinds[r.Intn(len(kinds))]
			switch k {
			case "neg-size":
				bad.SizeBytes = -1
				ar.StdoutDigest = bad
			case "short-hash":
				bad.Hash = "abc"
				ar.StderrDigest = bad
			case "upper-hash":
				bad.Hash = strings.Repeat("AB", 32)
				ar.OutputFiles = append(ar.OutputFiles, &pb.OutputFile{Path: "bad", Digest: bad})
			case "nonhex-hash":
				bad.Hash = strings.Repeat("zz", 32)
				ar.OutputDirectories = append(ar.OutputDirectories, &pb.OutputDirectory{Path: "bad", TreeDigest: bad})
			case "empty-path":
				ar.OutputFiles = append(ar.OutputFiles, &pb.OutputFile{Path: "", Digest: bad})
			case "abs-path":
				ar.OutputFiles = append(ar.OutputFiles, &pb.OutputFile{Path: "/etc/passwd", Digest: bad})
			case "nil-file":
				ar.OutputFiles = append(ar.OutputFiles, nil)
			case "nil-digest":
				ar.OutputFiles = append(ar.OutputFiles, &pb.OutputFile{Path: "nodigest"})
			case "nil-dir":
				ar.OutputDirectories = append(ar.OutputDirectories, nil)
			case "symlink-empty-target":
				ar.OutputSymlinks = append(ar.OutputSymlinks, &pb.OutputSymlink{Path: "l", Target: ""})
			case "nil-symlink":
				ar.OutputFileSymlinks = append(ar.OutputFileSymlinks, nil)
			case "abs-dir":
				ar.OutputDirectories = append(ar.OutputDirectories, &pb.OutputDirectory{Path: "/abs", TreeDigest: bad})
			}
			cs.invalid = k
			cs.valid = wellFormed(ar)
			if cs.valid {
				panic("generator: invalid kind " + k + " is well formed")
			}
			if (k == "nil-file" || k == "nil-dir" || k == "nil-symlink") && cs.via != 0 {
				cs.via = 0 // nil elements cannot be expressed on the wire
			}
		}
		cs.ar = ar
		return cs
	}
	nKeys := 1 + r.Intn(3)
	var cases []*acCase
	for i := 0; i < 2+r.Intn(5); i++ {
		key := world.HashOf([]byte(fmt.Sprintf("action-%d", r.Intn(nKeys))))
		cases = append(cases, mkCase(i, key))
	}
	for i, cs := range cases {
		c.Logf("%d: key=%s inst=%q via=%d valid=%v invalid=%s inlineOK=%v files=%d dirs=%d refs=%d", i, short(cs.key), cs.instance, cs.via, cs.valid, cs.invalid, cs.inlineOK, len(cs.ar.GetOutputFiles()), len(cs.ar.GetOutputDirectories()), len(cs.refs))
	}
	effKey := func(key, inst string) string {
		if !cfg.Mangle || inst == "" {
			return key
		}
		return world.HashOf([]byte(key + inst))
	}
	stored := map[string]*acCase{} // effective key -> last accepted upload
	s.Go("g0:c0", func() {
		cl := world.NewClient(s, n)
		for _, b := range toStore {
			if res := cl.DiskPut(cache.CAS, b.Hash, b.Size(), bytes.NewReader(b.Data)); !res.OK {
				s.Violate("C01.accept", "disk.Put", "blob upload refused: %s", res.Err)
			}
		}
		for i, cs := range cases {
			ek := effKey(cs.key, cs.instance)
			beforeEntry := world.Observe(n).Find("ac/" + ek)
			upload := proto.Clone(cs.ar).(*pb.ActionResult)
			var res world.Res
			site := []string{"UpdateActionResult", "http.PUT/proto", "http.PUT/json", "http.PUT/proto+zstd"}[cs.via]
			if cs.via == 0 {
				res, _ = cl.UpdateAR(cs.instance, cs.key, upload)
			} else {
				var body []byte
				hdr := map[string]string{}
				if cs.via == 2 {
					body, _ = protojson.Marshal(upload)
					hdr["Content-Type"] = "application/json"
				} else {
					body, _ = proto.Marshal(upload)
				}
				clen := int64(len(body))
				if cs.via == 3 {
					hdr["X-Digest-SizeBytes"] = fmt.Sprint(len(body))
					body = world.Compress(body, r.Chance(1, 2))
					hdr["Content-Encoding"] = "zstd"
					clen = int64(len(body))
				}
				p := "/ac/" + cs.key
				if cs.instance != "" {
					p = "/" + cs.instance + p
				}
				res, _ = cl.HTTP(world.HTTPReq{Method: "PUT", Path: p, Header: hdr, CLen: clen, Body: world.NewParkReader(s, body, nil, -1), FailAt: -1, ParkAt: -1})
			}
			c.Res.Ops++
			s.Note("%d upload %s -> %s", i, site, res.Code)
			c.Cell("%s|valid=%v|%s", site, cs.valid, cs.invalid)
			afterEntry := world.Observe(n).Find("ac/" + ek)
			changed := (beforeEntry == nil) != (afterEntry == nil) || (beforeEntry != nil && afterEntry != nil && beforeEntry.Random != afterEntry.Random)
			switch {
			case !cs.valid:
				if res.OK {
					s.Violate("C11.reject", site, "ActionResult with an ill-formed field (%s) accepted", cs.invalid)
				} else if changed {
					s.Violate("C11.reject-stores-nothing", site, "rejected ActionResult (%s) changed what is stored under the key", cs.invalid)
				}
				continue
			case cs.via == 0 && !cs.inlineOK:
				// inlined bytes that do not match their digest: the upload must fail (C01) and store nothing
				if res.OK {
					s.Violate("C01.ack-match", site, "ActionResult whose inlined bytes do not match their digest acknowledged")
					s.Violate("C11.inline-true-digest", site, "ActionResult accepted although the inlined contents of an output file do not match its declared digest (the bytes cannot be stored under their true digest)")
				} else if changed {
					s.Violate("C11.reject-stores-nothing", site+"/inline-mismatch", "the upload was rejected (inlined bytes do not match their digest) but the action-cache entry was stored")
				}
				continue
			case !res.OK:
				s.Violate("C11.accept", site, "valid ActionResult refused: %s %s", res.Code, res.Err)
				continue
			}
			stored[ek] = cs
			// what an accepted upload left under the action key is a serialised
			// ActionResult (whatever the upload's own encoding was) equal to the
			// upload up to the server's metadata
			if afterEntry == nil {
				s.Violate("C11.stored-parses", site, "accepted ActionResult left no entry under the action key")
			} else if raw, err := os.ReadFile(afterEntry.Path); err != nil {
				s.Violate("C11.stored-parses", site, "entry of an accepted ActionResult cannot be read: %v", err)
			} else {
				var onDisk pb.ActionResult
				if err := proto.Unmarshal(raw, &onDisk); err != nil {
					s.Violate("C11.stored-parses", site, "the entry stored under the action key is not a serialised ActionResult: %v (first bytes %q)", err, string(raw[:min(len(raw), 24)]))
				}
			}
			// ---- queries
			allPresent := true
			var why string
			for _, ref := range cs.refs {
				if ref.state != 0 && ref.d.Hash != world.EmptySha256 {
					allPresent = false
					why = fmt.Sprintf("%s is %s", ref.what, []string{"", "absent", "stored with another size"}[ref.state])
				}
			}
			before := world.Observe(n)
			in := world.InlineReq{Stdout: r.Chance(1, 2), Stderr: r.Chance(1, 2)}
			if r.Chance(1, 2) || cs.big {
				for _, f := range cs.ar.OutputFiles {
					if r.Chance(1, 2) || cs.big {
						in.Files = append(in.Files, f.Path)
					}
				}
			}
			gr, got := cl.GetAR(cs.instance, cs.key, in)
			if gr.OK && got != nil {
				// gRPC's default limit for a received message (what a client
				// that configured nothing can take): 4 MiB
				if n := proto.Size(got); n > 4<<20 {
					s.Violate("C11.inline-budget", "GetActionResult", "hit of %d bytes (inlined contents included) does not fit a default gRPC message of 4 MiB", n)
				}
			}
			hp := "/ac/" + cs.key
			if cs.instance != "" {
				hp = "/" + cs.instance + hp
			}
			hg := cl.HTTPGet(hp, false, world.FullRead)
			hh := cl.HTTPHead(hp)
			after := world.Observe(n)
			hits := map[string]bool{"GetActionResult": gr.OK && got != nil, "http.GET": hg.Found && hg.OK, "http.HEAD": hh.Found}
			if cs.instance != "" && hits["GetActionResult"] != hits["http.GET"] {
				// the same (instance, key) through the two front ends
				s.Violate("C15.frontends-agree", "instance", "instance %q key %s (stored via %s): gRPC hit=%v, HTTP hit=%v", cs.instance, short(cs.key), site, hits["GetActionResult"], hits["http.GET"])
			}
			for _, q := range []string{"GetActionResult", "http.GET", "http.HEAD"} {
				if hits[q] != allPresent {
					if allPresent {
						s.Violate("C06.hit-iff", q, "every referenced blob is present with the stated size but the answer is not a hit (%s)", map[string]string{"GetActionResult": gr.Code + " " + gr.Err, "http.GET": hg.Code, "http.HEAD": hh.Code}[q])
					} else {
						s.Violate("C06.hit-iff", q, "answered a hit although %s", why)
					}
				}
			}
			if !allPresent {
				if gr.Code != "NotFound" {
					s.Violate("C06.miss-not-error", "GetActionResult", "a missing referenced blob (%s) is answered with %s instead of NotFound: %s", why, gr.Code, gr.Err)
				}
				if hg.Code != "NotFound" || hh.Code != "NotFound" {
					s.Violate("C06.miss-not-error", "http", "a missing referenced blob (%s) is answered with GET %s / HEAD %s instead of 404", why, hg.Code, hh.Code)
				}
				continue
			}
			if !hits["GetActionResult"] || !hits["http.GET"] {
				continue
			}
			// C06.touch: every locally held referenced blob is now more recent than anything untouched
			must := map[string]bool{} // referenced blobs: a hit is a use of each of them
			may := map[string]bool{"ac/" + ek: true}
			for _, ref := range cs.refs {
				must["cas/"+ref.d.Hash] = true
			}
			for _, f := range cs.ar.OutputFiles {
				may["cas/"+f.GetDigest().GetHash()] = true
			}
			may["cas/"+cs.ar.GetStdoutDigest().GetHash()] = true
			may["cas/"+cs.ar.GetStderrDigest().GetHash()] = true
			inBefore := map[string]bool{}
			for _, e := range before.Index {
				inBefore[e.Key] = true
			}
			oldestTouched, newestUntouched := 1<<30, -1
			order := after.KeysOldestFirst()
			for p, k := range order {
				switch {
				case must[k]:
					if p < oldestTouched {
						oldestTouched = p
					}
				case !inBefore[k] || may[k]:
					// created by this request (de-inlined bytes) or possibly used by it
				default:
					if p > newestUntouched {
						newestUntouched = p
					}
				}
			}
			if oldestTouched < newestUntouched {
				s.Violate("C06.touch", "GetActionResult", "after a hit a referenced blob (LRU position %d) is older than an entry the request did not use (position %d)", oldestTouched, newestUntouched)
			}
			// C11.roundtrip / views
			judgeRoundtrip(s, cl, cs, got, in, "GetActionResult")
			var viaHTTP pb.ActionResult
			if err := proto.Unmarshal(hg.Data, &viaHTTP); err != nil {
				s.Violate("C11.stored-valid", "http.GET", "stored ActionResult does not parse: %v", err)
			} else {
				judgeRoundtrip(s, cl, cs, &viaHTTP, world.InlineReq{}, "http.GET")
				jr, w := cl.HTTP(world.HTTPReq{Method: "GET", Path: hp, Header: map[string]string{"Accept": "application/json"}, FailAt: -1, ParkAt: -1})
				var viaJSON pb.ActionResult
				if !jr.OK {
					s.Violate("C11.views-agree", "http.GET/json", "JSON view not served: %s", jr.Code)
				} else if err := protojson.Unmarshal(w.Body.Bytes(), &viaJSON); err != nil {
					s.Violate("C11.views-agree", "http.GET/json", "JSON view does not parse: %v", err)
				} else if !proto.Equal(&viaJSON, &viaHTTP) {
					s.Violate("C11.views-agree", "http.GET/json", "JSON and protobuf views of the stored ActionResult differ")
				}
			}
			// C15: instance separation
			if cs.instance != "" || cfg.Mangle {
				other := instances[(indexOf(instances, cs.instance)+1+r.Intn(len(instances)-1))%len(instances)]
				if nb := near(cs.instance); len(nb) > 0 && r.Chance(2, 3) {
					other = nb[r.Intn(len(nb))]
				}
				or, og := cl.GetAR(other, cs.key, world.InlineReq{})
				op := "/ac/" + cs.key
				if other != "" {
					op = "/" + other + op
				}
				oh := cl.HTTPGet(op, false, world.FullRead)
				otherStored := stored[effKey(cs.key, other)]
				expectHit := !cfg.Mangle || otherStored != nil
				if cfg.Mangle && otherStored == nil && ((or.OK && og != nil) || (oh.Found && oh.OK)) {
					s.Violate("C15.same-instance", "mangling-on", "ActionResult stored under instance %q is returned for instance %q (gRPC hit=%v, HTTP hit=%v)", cs.instance, other, or.OK, oh.Found)
				}
				if !cfg.Mangle && expectHit && !(or.OK && og != nil && oh.Found) {
					s.Violate("C15.mangling-off", "mangling-off", "with mangling disabled a lookup under instance %q misses an entry stored under %q (gRPC %s, HTTP %s)", other, cs.instance, or.Code, oh.Code)
				}
			}
			if s.Failed() {
				return
			}
		}
	})
	c.RunTasks("C14.returns")
	c.CheckPanics("g0:c0")
	if s.Drain() != sim.Quiesced || s.Failed() {
		return
	}
	world.Quiescence(s, n, world.QuiescenceOpts{})
	// C11.stored-valid: whatever sits under an action key parses and validates
	for _, e := range world.Observe(n).Index {
		if !strings.HasPrefix(e.Key, "ac/") {
			continue
		}
		rd := world.NewClient(s, n).DiskGet(cache.AC, e.Key[3:], -1, 0, false, world.FullRead)
		var ar pb.ActionResult
		if !rd.OK {
			continue
		}
		if err := proto.Unmarshal(rd.Data, &ar); err != nil {
			s.Violate("C11.stored-valid", "ac.v2", "entry %s does not parse as an ActionResult: %v", short(e.Key), err)
		} else if !wellFormed(&ar) {
			s.Violate("C11.stored-valid", "ac.v2", "entry %s holds an ActionResult with ill-formed paths or digests", short(e.Key))
		}
	}
}

func indexOf(l []string, x string) int {
	for i, v := range l {
		if v == x {
			return i
		}
	}
	return 0
}

// judgeRoundtrip compares a returned ActionResult with the uploaded one modulo
// the documented server-side changes.
func judgeRoundtrip(s *sim.Sim, cl *world.Client, cs *acCase, got *pb.ActionResult, in world.InlineReq, site string) {
	want := proto.Clone(cs.ar).(*pb.ActionResult)
	g := proto.Clone(got).(*pb.ActionResult)
	// worker name filled in when absent
	if want.ExecutionMetadata == nil || want.ExecutionMetadata.Worker == "" {
		if g.ExecutionMetadata == nil || g.ExecutionMetadata.Worker == "" {
			s.Violate("C11.roundtrip", site, "worker name not filled in")
		} else {
			g.ExecutionMetadata.Worker = ""
			if want.ExecutionMetadata == nil && proto.Equal(g.ExecutionMetadata, &pb.ExecutedActionMetadata{}) {
				g.ExecutionMetadata = nil
			}
		}
	}
	content := func(raw []byte, d *pb.Digest) ([]byte, bool) {
		if len(raw) > 0 {
			return raw, true
		}
		if d == nil || d.SizeBytes == 0 {
			return nil, true
		}
		r := cl.DiskGet(cache.CAS, d.Hash, d.SizeBytes, 0, false, world.FullRead)
		return r.Data, r.OK
	}
	cmp := func(what string, wraw, graw []byte, wd, gd *pb.Digest) {
		wc, _ := content(wraw, wd)
		gc, ok := content(graw, gd)
		if !ok {
			s.Violate("C11.deinlined-in-cas", site, "%s was replaced by digest %s/%d which is not readable from the CAS", what, short(gd.GetHash()), gd.GetSizeBytes())
			return
		}
		if !bytes.Equal(wc, gc) {
			s.Violate("C11.roundtrip", site, "%s: returned content (%d bytes) differs from the uploaded (%d bytes)", what, len(gc), len(wc))
		}
		if wd != nil && gd != nil && !proto.Equal(wd, gd) {
			s.Violate("C11.roundtrip", site, "%s: digest changed", what)
		}
		if len(graw) == 0 && len(wraw) > 0 && gd != nil && (gd.Hash != world.HashOf(wraw) || gd.SizeBytes != int64(len(wraw))) {
			s.Violate("C11.deinlined-in-cas", site, "%s de-inlined under %s/%d which is not the digest of its bytes", what, short(gd.Hash), gd.SizeBytes)
		}
	}
	cmp("stdout", want.StdoutRaw, g.StdoutRaw, want.StdoutDigest, g.StdoutDigest)
	cmp("stderr", want.StderrRaw, g.StderrRaw, want.StderrDigest, g.StderrDigest)
	want.StdoutRaw, g.StdoutRaw, want.StdoutDigest, g.StdoutDigest = nil, nil, nil, nil
	want.StderrRaw, g.StderrRaw, want.StderrDigest, g.StderrDigest = nil, nil, nil, nil
	if len(want.OutputFiles) != len(g.OutputFiles) {
		s.Violate("C11.roundtrip", site, "%d output files returned, %d uploaded", len(g.OutputFiles), len(want.OutputFiles))
		return
	}
	for i := range want.OutputFiles {
		wf, gf := want.OutputFiles[i], g.OutputFiles[i]
		cmp("output file "+wf.Path, wf.Contents, gf.Contents, wf.Digest, gf.Digest)
		wf.Contents, gf.Contents = nil, nil
	}
	if !proto.Equal(want, g) {
		s.Violate("C11.roundtrip", site, "returned ActionResult differs from the uploaded one beyond the documented changes:\n got  %v\n want %v", trunc(g.String()), trunc(want.String()))
	}
}

func trunc(s string) string {
	if len(s) > 600 {
		return s[:600] + "..."
	}
	return s
}
