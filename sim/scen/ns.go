package scen

import (
	"bytes"
	"fmt"

	"verifsim/sim"
	"verifsim/world"

	"github.com/buchgr/bazel-remote/v2/cache"
)

// ns — C15 (key-space isolation): the same hash is used as a key in the CAS,
// the validated action cache and the raw action cache; every order of writes,
// overwrites, failed stores and evictions; three independent model maps.
func init() { Register("ns", nsScen) }

func nsScen(c *Ctx) {
	r, s := c.R, c.S
	tight := r.Chance(1, 3)
	cfg := drawCfg(r, tight)
	if tight {
		cfg.MaxSize = []int64{24 << 10, 40 << 10}[r.Intn(2)]
	}
	cfg.ValidateAC = r.Chance(1, 2)
	c.Logf("cfg %+v", cfg)
	var n *world.Node
	s.StepHook = func(s *sim.Sim) {
		if n != nil && n.Cache != nil {
			world.StepInvariants(s, n, "")
		}
	}
	n = c.Start("g0:", c.Dir("f"), cfg, nil)
	if n.Err != nil {
		s.Violate("C09.starts", "g0:", "start-up failed: %v", n.Err)
		return
	}
	// a few blobs; their hashes are the shared keys
	var blobs []*world.Blob
	for i := 0; i < 2+r.Intn(2); i++ {
		blobs = append(blobs, world.Make(world.BlobID{Kind: r.Intn(3), Seed: 12000 + i, Size: []int64{3000, 100, 5000, 4096}[r.Intn(4)]}))
	}
	// the hash of the empty blob is a key like any other in the AC and RAW key
	// spaces (the CAS answers it implicitly; the CAS side of that key is not
	// modelled here). Added after seeded change C15d.
	emptyKey := &world.Blob{ID: world.BlobID{Kind: 9, Seed: 0, Size: 0}, Hash: world.EmptySha256}
	if r.Chance(1, 2) {
		blobs = append(blobs, emptyKey)
	}
	kinds := []cache.EntryKind{cache.CAS, cache.AC, cache.RAW}
	model := map[string][]byte{} // "<kind>/<hash>" -> value
	nOps := 8 + r.Intn(20)
	seq := 0
	s.Go("g0:c0", func() {
		cl := world.NewClient(s, n)
		for i := 0; i < nOps; i++ {
			b := blobs[r.Intn(len(blobs))]
			kind := kinds[r.Intn(3)]
			if b == emptyKey && kind == cache.CAS {
				kind = kinds[1+r.Intn(2)]
			}
			key := kind.String() + "/" + b.Hash
			before := world.Observe(n)
			switch r.Weighted(4, 4, 1, 1, 1) {
			case 0: // put
				val := b.Data
				if kind != cache.CAS {
					seq++
					val = world.Make(world.BlobID{Kind: 0, Seed: 12100 + seq, Size: []int64{200, 3000, 6000}[r.Intn(3)]}).Data
				}
				corrupt := kind == cache.CAS && r.Chance(1, 4)
				data := val
				if corrupt {
					data = append([]byte(nil), val...)
					data[0] ^= 1
					s.Fault("upload.flip")
				}
				res := cl.DiskPut(kind, b.Hash, int64(len(val)), bytes.NewReader(data))
				s.Note("%d put %s %s -> %s", i, kind, short(b.Hash), res.Code)
				if res.OK && !corrupt {
					model[key] = val
				}
				if res.OK && corrupt {
					s.Violate("C01.reject", "disk.Put", "corrupted CAS upload acknowledged")
				}
			case 1: // get
				res := cl.DiskGet(kind, b.Hash, -1, 0, false, world.FullRead)
				want, has := model[key]
				s.Note("%d get %s %s -> %s", i, kind, short(b.Hash), res.Code)
				if res.Found && res.OK {
					if !has {
						s.Violate("C15.isolated", kind.String()+"/disk.Get", "read of %s/%s hit although nothing was stored in that key space (other key spaces hold the same hash)", kind, short(b.Hash))
					} else if !bytes.Equal(res.Data, want) {
						src := "unknown bytes"
						for _, k2 := range kinds {
							if v, ok := model[k2.String()+"/"+b.Hash]; ok && k2 != kind && bytes.Equal(v, res.Data) {
								src = "the value stored under " + k2.String() + "/"
							}
						}
						s.Violate("C15.isolated", kind.String()+"/disk.Get", "read of %s/%s returned %s", kind, short(b.Hash), src)
					}
				} else if has && !tight && res.Code == "NotFound" {
					s.Violate("C15.isolated", kind.String()+"/disk.Get", "entry %s/%s vanished (roomy cache) after operations on other key spaces", kind, short(b.Hash))
				}
			case 2: // contains
				res := cl.DiskContains(kind, b.Hash, -1)
				want, has := model[key]
				if res.Found && !has {
					s.Violate("C15.isolated", kind.String()+"/disk.Contains", "%s/%s reported present although nothing was stored in that key space", kind, short(b.Hash))
				}
				if res.Found && has && res.Size != int64(len(want)) {
					s.Violate("C15.isolated", kind.String()+"/disk.Contains", "%s/%s reported with size %d, value has %d bytes", kind, short(b.Hash), res.Size, len(want))
				}
			case 3: // compressed read is only ever served from the CAS
				res := cl.HTTPGet("/ac/"+b.Hash, true, world.FullRead)
				if res.Found && res.OK {
					acKind := cache.RAW
					if cfg.ValidateAC {
						acKind = cache.AC
					}
					want, has := model[acKind.String()+"/"+b.Hash]
					if !has || !bytes.Equal(res.Data, want) {
						if cv, ok := model["cas/"+b.Hash]; ok && bytes.Equal(res.Data, cv) {
							s.Violate("C15.zstd-cas-only", "http.GET/ac+zstd", "a zstd read of /ac/%s was served from the CAS", short(b.Hash))
						} else if !cfg.ValidateAC {
							s.Violate("C15.isolated", "http.GET/ac", "GET /ac/%s returned bytes that are not the stored %s value", short(b.Hash), acKind)
						}
					}
				}
			case 4: // HTTP view of the CAS
				if b == emptyKey {
					break // the empty blob is always present in the CAS
				}
				res := cl.HTTPGet("/cas/"+b.Hash, r.Chance(1, 2), world.FullRead)
				want, has := model["cas/"+b.Hash]
				if res.Found && res.OK && (!has || !bytes.Equal(res.Data, want)) {
					s.Violate("C15.isolated", "http.GET/cas", "GET /cas/%s returned bytes that are not the blob (has=%v)", short(b.Hash), has)
				}
			}
			c.Res.Ops++
			// evictions (tight caches) update the model from observation
			after := world.Observe(n)
			in := map[string]bool{}
			for _, e := range after.Index {
				in[e.Key] = true
			}
			for _, e := range before.Index {
				if !in[e.Key] {
					delete(model, e.Key)
				}
			}
			for k := range model {
				if !in[k] {
					delete(model, k)
				}
			}
			if s.Failed() {
				return
			}
		}
	})
	c.RunTasks("C14.returns")
	c.CheckPanics("g0:c0")
	if s.Drain() == sim.Quiesced && !s.Failed() {
		world.Quiescence(s, n, world.QuiescenceOpts{})
	}
	_ = fmt.Sprint
}
