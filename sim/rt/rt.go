// Package rt holds the types exchanged between the driver and the workers. It
// has no dependencies, so the driver builds without the instrumented tree.
package rt

// Params selects one run. With Replay set the tapes drive the run.
type Params struct {
	Scenario string            `json:"scenario"`
	Seed     uint64            `json:"seed"`
	Opt      map[string]string `json:"opt,omitempty"` // scenario options (fixed per check)
	Plan     []uint32          `json:"plan,omitempty"`
	Sched    []uint32          `json:"sched,omitempty"`
	Replay   bool              `json:"replay,omitempty"`
	KeepLog  int               `json:"keep_log,omitempty"`
}

type Violation struct {
	Clause string `json:"clause"`
	Site   string `json:"site"`
	Detail string `json:"detail"`
	Step   int    `json:"step"`
	// ReplayOpt: scenario options that reproduce this violation on their own
	// (set by enumerating scenarios; merged into Params.Opt for replay).
	ReplayOpt map[string]string `json:"replay_opt,omitempty"`
}

type Result struct {
	Params     Params           `json:"params"`
	Violations []Violation      `json:"violations,omitempty"`
	Steps      int              `json:"steps"`
	Preempts   int              `json:"preempts"`
	Ambig      int              `json:"ambig,omitempty"`
	TraceHash  string           `json:"trace"`
	StateHash  string           `json:"state,omitempty"`
	Faults     map[string]int   `json:"faults,omitempty"`
	Probes     map[string]int   `json:"probes,omitempty"`
	Cells      []string         `json:"cells,omitempty"`
	Aborted    string           `json:"aborted,omitempty"`
	PlanLog    []string         `json:"plan_log,omitempty"`
	TraceLog   []string         `json:"trace_log,omitempty"`
	PlanTape   []uint32         `json:"plan_tape,omitempty"`
	SchedTape  []uint32         `json:"sched_tape,omitempty"`
	SimMs      float64          `json:"sim_ms"`
	WallMs     float64          `json:"wall_ms"`
	Ops        int              `json:"ops"`
	Harness    string           `json:"harness_error,omitempty"`
	Extra      map[string]int64 `json:"extra,omitempty"`
	// UnfinishedFrom is set on a marker line: the worker stopped early (heap
	// budget) and the jobs from that index on must be rescheduled.
	UnfinishedFrom *int `json:"unfinished_from,omitempty"`
}
