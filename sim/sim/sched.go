// Package sim is the deterministic scheduler: every goroutine of the system
// under test and of the harness parks at scheduling points (hooks spliced into
// bazel-remote by the instrumenter, and the harness's own I/O seams); the
// scheduler waits for quiescence with testing/synctest, sorts the parked
// entries by label, lets the tape choose one and releases it.
package sim

import (
	"bytes"
	"crypto/sha256"
	"encoding/hex"
	"fmt"
	"hash"
	"os"
	"runtime"
	"sort"
	"strconv"
	"strings"
	"sync"
	"sync/atomic"
	"testing/synctest"
	"time"

	"verifsim/rt"
)

type entry struct {
	label string // goroutine label + "@" + point
	glab  string // goroutine label
	ch    chan struct{}
	low   bool // released only when nothing but background work is runnable
	gid   int64
}

type Violation = rt.Violation

type Policy struct {
	Sticky        int  // 0..7 of 8: probability of continuing the default candidate
	StarveRemover bool // never pick the remover while anything else is runnable
	RemoverFirst  bool // always pick the remover when it is runnable
}

type Sim struct {
	mu       sync.Mutex
	parked   []*entry
	labels   map[int64]string
	alias    map[int64]string // pool workers: label of the work item in hand
	held     map[int64]int
	children map[string]int
	sched    int64 // goid of the scheduler
	closed   bool

	Plan   Rand
	Sched  *Tape
	Policy Policy

	Steps    int
	StepCap  int
	StopAt   int // Run returns before releasing step number StopAt (>0)
	lastG    string
	dead     []string // label prefixes of killed instances
	tasks    map[string]*task
	taskSeq  []string
	trace    hash.Hash
	TraceLog []string
	KeepLog  int // max entries kept in TraceLog
	Preempts int
	Ambig    int
	notes    []string
	created  []string // files created by the code under test, in creation order

	// Knobs are per-run "buggify" settings of the harness seams (legal but
	// unusual behaviour of readers, transports, ...), drawn from the plan tape.
	Knobs map[string]int

	// Panicked is set when a handler of the code under test panicked: it may
	// have died holding the cache mutex, so nothing may touch the cache any
	// more (the oracles skip it, the scenario ends the run).
	Panicked bool

	Inert bool // an enclosing run that only collects results of sub-runs: nothing ever parks in it

	StepHook func(s *Sim) // evaluated at every quiescent point before a release

	Violations []Violation
	Faults     map[string]int
	Probes     map[string]int
	Aborted    string // non-empty: run inconclusive (step cap)
	SimTime    time.Duration
	t0         time.Time
	prev       *Sim
	baseline   map[int64]bool // goroutines that existed before this run started
}

type task struct {
	label string
	done  bool
	dead  bool
	pan   any
	stack string
}

var cur *Sim // the active simulation (one run at a time per process)

func Cur() *Sim { return cur }

func New(plan, sched *Tape) *Sim {
	s := &Sim{
		labels:   map[int64]string{},
		alias:    map[int64]string{},
		held:     map[int64]int{},
		children: map[string]int{},
		tasks:    map[string]*task{},
		Plan:     Rand{plan},
		Sched:    sched,
		StepCap:  20000,
		trace:    sha256.New(),
		Faults:   map[string]int{},
		Knobs:    map[string]int{},
		Probes:   map[string]int{},
		KeepLog:  400,
		t0:       time.Now(),
	}
	s.sched = Goid()
	s.prev = cur
	cur = s
	s.baseline = allGoids()
	return s
}

// allGoids lists the ids of all goroutines of the process.
func allGoids() map[int64]bool {
	out := map[int64]bool{}
	buf := make([]byte, 1<<20)
	for {
		n := runtime.Stack(buf, true)
		if n < len(buf) {
			buf = buf[:n]
			break
		}
		buf = make([]byte, 2*len(buf))
	}
	for _, blk := range strings.Split(string(buf), "\n\n") {
		if !strings.HasPrefix(blk, "goroutine ") {
			continue
		}
		rest := blk[len("goroutine "):]
		if sp := strings.IndexByte(rest, ' '); sp > 0 {
			if id, err := strconv.ParseInt(rest[:sp], 10, 64); err == nil {
				out[id] = true
			}
		}
	}
	return out
}

// Preexisting reports whether goroutine gid existed before this run started
// (leftovers of earlier runs in the same worker process).
func (s *Sim) Preexisting(gid int64) bool { return s.baseline[gid] }

// Close ends the run: every parked goroutine is released and all later
// scheduling points are pass-through, so leftovers finish on their own.
func (s *Sim) Close() {
	s.mu.Lock()
	// A goroutine that is blocked for good inside a region holding a cache
	// mutex (not parked at an R8 point: blocked in the code under test) keeps
	// that mutex for ever. Releasing the others would send them into a real
	// sync.Mutex.Lock that never returns, which is not a durable block: the
	// bubble would never be quiescent again. They stay parked instead (their
	// run has been judged - "nothing runnable" - and later runs treat them as
	// foreign).
	wedged := false
	for gid := range s.liveHolders() {
		isParked := false
		for _, e := range s.parked {
			isParked = isParked || e.gid == gid
		}
		wedged = wedged || !isParked
	}
	s.closed = true
	p := s.parked
	s.parked = nil
	if wedged {
		s.Probes["r8_mutex_holder_blocked_for_ever"]++
		p = nil
	}
	s.mu.Unlock()
	for _, e := range p {
		close(e.ch)
	}
	s.SimTime = time.Since(s.t0)
	if cur == s {
		cur = s.prev
	}
	synctest.Wait()
	s.flushNotes()
}

func (s *Sim) Closed() bool {
	s.mu.Lock()
	defer s.mu.Unlock()
	return s.closed
}

func (s *Sim) Fault(kind string) {
	s.mu.Lock()
	s.Faults[kind]++
	s.mu.Unlock()
}

func (s *Sim) Probe(name string) {
	s.mu.Lock()
	s.Probes[name]++
	s.mu.Unlock()
}

func (s *Sim) Violate(clause, site, format string, a ...any) {
	s.mu.Lock()
	defer s.mu.Unlock()
	if s.closed {
		return // stragglers released at the end of a run do not report
	}
	if len(s.Violations) < 20 {
		s.Violations = append(s.Violations, Violation{Clause: clause, Site: site, Detail: fmt.Sprintf(format, a...), Step: s.Steps})
	}
}

func (s *Sim) Failed() bool {
	s.mu.Lock()
	defer s.mu.Unlock()
	return len(s.Violations) > 0
}

// Goid returns the current goroutine's id.
func Goid() int64 {
	var buf [64]byte
	n := runtime.Stack(buf[:], false)
	// "goroutine 123 ["
	b := buf[10:n]
	i := bytes.IndexByte(b, ' ')
	if i < 0 {
		return -1
	}
	id, _ := strconv.ParseInt(string(b[:i]), 10, 64)
	return id
}

// createdBy parses the current goroutine's stack for its creator.
func createdBy() (fn string, parent int64) {
	buf := make([]byte, 16<<10)
	n := runtime.Stack(buf, false)
	st := string(buf[:n])
	i := strings.LastIndex(st, "created by ")
	if i < 0 {
		return "", -1
	}
	if strings.Contains(st, "performQueuedEvictionsContinuously") {
		// the background remover of a cache instance (the "created by" line
		// names its creator, loadExistingFiles)
		defer func() { fn = "performQueuedEvictionsContinuously" }()
	}
	line := st[i+len("created by "):]
	if j := strings.IndexByte(line, '\n'); j >= 0 {
		line = line[:j]
	}
	// "<func> in goroutine N"
	parent = -1
	if j := strings.LastIndex(line, " in goroutine "); j >= 0 {
		parent, _ = strconv.ParseInt(strings.TrimSpace(line[j+len(" in goroutine "):]), 10, 64)
		line = line[:j]
	}
	// shorten: keep the last path element
	if j := strings.LastIndexByte(line, '/'); j >= 0 {
		line = line[j+1:]
	}
	return line, parent
}

// labelOf returns (and on first use derives) the label of goroutine gid; ""
// means the goroutine does not belong to this simulation (a straggler of an
// earlier run in the same process): such goroutines are never parked here.
// Caller holds s.mu.
func (s *Sim) labelOf(gid int64) string {
	if a, ok := s.alias[gid]; ok {
		return a
	}
	return s.ownLabel(gid)
}

// Alias makes the calling goroutine - a member of a pool of identical workers
// - appear under a label derived from the work item it has just taken (which
// worker takes which item is decided by the Go runtime, not by the scheduler),
// until it takes the next one.
func (s *Sim) Alias(key string) {
	gid := Goid()
	s.mu.Lock()
	defer s.mu.Unlock()
	if s.closed || s.Inert {
		return
	}
	base := s.ownLabel(gid)
	if base == "" {
		return
	}
	k := instancePrefix(base) + key
	n := s.children["alias|"+k]
	s.children["alias|"+k] = n + 1
	s.alias[gid] = k + "#" + strconv.Itoa(n)
}

func (s *Sim) ownLabel(gid int64) string {
	if l, ok := s.labels[gid]; ok {
		return l
	}
	fn, parent := createdBy()
	pl, ok := s.labels[parent]
	if !ok {
		pl = s.resolveAncestor(parent)
		if pl == "" {
			s.Probes["foreign_goroutine"]++
			if os.Getenv("VERIF_DEBUG_ORPHAN") != "" {
				buf := make([]byte, 16<<10)
				n := runtime.Stack(buf, false)
				fmt.Fprintf(os.Stderr, "FOREIGN goroutine: created by %s parent %d\n%s\n", fn, parent, buf[:n])
			}
			s.labels[gid] = ""
			return ""
		}
	}
	l := s.childLabel(pl, fn)
	s.labels[gid] = l
	return l
}

func (s *Sim) childLabel(pl, fn string) string {
	if strings.Contains(fn, "performQueuedEvictionsContinuously") {
		// the background remover of the instance its creator belongs to
		return instancePrefix(pl) + "remover"
	}
	if strings.Contains(fn, "migrateDirectory") {
		// a pool of identical workers: labelled by work item (the path at the
		// scheduling point), not by worker
		return pl + "/migrate"
	}
	base := pl + "/" + fn
	k := s.children[base]
	s.children[base] = k + 1
	return base + "#" + strconv.Itoa(k)
}

// resolveAncestor labels goroutine gid (which never reached a scheduling point
// itself) from its own creator chain, using a dump of all stacks.
func (s *Sim) resolveAncestor(gid int64) string {
	if gid < 0 {
		return ""
	}
	buf := make([]byte, 4<<20)
	n := runtime.Stack(buf, true)
	type info struct {
		fn     string
		parent int64
	}
	all := map[int64]info{}
	for _, blk := range strings.Split(string(buf[:n]), "\n\n") {
		if !strings.HasPrefix(blk, "goroutine ") {
			continue
		}
		rest := blk[len("goroutine "):]
		sp := strings.IndexByte(rest, ' ')
		if sp < 0 {
			continue
		}
		id, err := strconv.ParseInt(rest[:sp], 10, 64)
		if err != nil {
			continue
		}
		i := strings.LastIndex(blk, "created by ")
		if i < 0 {
			continue
		}
		line := blk[i+len("created by "):]
		if j := strings.IndexByte(line, '\n'); j >= 0 {
			line = line[:j]
		}
		par := int64(-1)
		if j := strings.LastIndex(line, " in goroutine "); j >= 0 {
			par, _ = strconv.ParseInt(strings.TrimSpace(line[j+len(" in goroutine "):]), 10, 64)
			line = line[:j]
		}
		if j := strings.LastIndexByte(line, '/'); j >= 0 {
			line = line[j+1:]
		}
		all[id] = info{line, par}
	}
	var chain []int64
	cur := gid
	for depth := 0; depth < 8; depth++ {
		if l, ok := s.labels[cur]; ok {
			if l == "" {
				return ""
			}
			// label the chain downwards
			for i := len(chain) - 1; i >= 0; i-- {
				l = s.childLabel(l, all[chain[i]].fn)
				s.labels[chain[i]] = l
			}
			return l
		}
		inf, ok := all[cur]
		if !ok {
			return ""
		}
		chain = append(chain, cur)
		cur = inf.parent
	}
	return ""
}

// instancePrefix returns the "gN:" prefix of a label ("" if none).
func instancePrefix(l string) string {
	if i := strings.IndexByte(l, ':'); i >= 0 {
		return l[:i+1]
	}
	return ""
}

// SetLabel names the current goroutine.
func (s *Sim) SetLabel(l string) {
	gid := Goid()
	s.mu.Lock()
	s.labels[gid] = l
	s.mu.Unlock()
}

// Label returns the current goroutine's label.
func (s *Sim) Label() string {
	gid := Goid()
	s.mu.Lock()
	defer s.mu.Unlock()
	if s.closed || s.Inert || gid == s.sched {
		return ""
	}
	return s.labelOf(gid)
}

// Park blocks the calling goroutine at a scheduling point until the
// scheduler releases it.
func (s *Sim) Park(point string) { s.park("", point, false) }

// Settle parks the calling task until every other goroutine (stragglers of
// the request it just finished) has run to completion or blocked: a settling
// entry is only released when nothing but the remover is runnable.
func (s *Sim) Settle() { s.parkX("", "settle", false, true) }

// ParkAs parks under an explicit goroutine label (pool workers are labelled
// by work item, not by worker).
func (s *Sim) ParkAs(glabel, point string) { s.park(glabel, point, false) }

func (s *Sim) park(glabel, point string, isYield bool) { s.parkX(glabel, point, isYield, false) }

func (s *Sim) parkX(glabel, point string, isYield, low bool) {
	gid := Goid()
	s.mu.Lock()
	if s.closed || s.Inert || gid == s.sched {
		s.mu.Unlock()
		return
	}
	if isYield && s.held[gid] > 0 {
		s.mu.Unlock()
		return
	}
	if glabel == "" {
		glabel = s.labelOf(gid)
		if glabel == "" {
			s.mu.Unlock()
			return // not a goroutine of this simulation
		}
	}
	e := &entry{label: glabel + "@" + point, glab: glabel, ch: make(chan struct{}), low: low, gid: gid}
	s.parked = append(s.parked, e)
	s.mu.Unlock()
	<-e.ch
}

func (s *Sim) heldDelta(d int) {
	gid := Goid()
	s.mu.Lock()
	if !s.closed {
		s.held[gid] += d
		if s.held[gid] == 0 {
			delete(s.held, gid)
		}
	}
	s.mu.Unlock()
}

// HeldByCurrent reports whether the calling goroutine holds a cache mutex.
func (s *Sim) HeldByCurrent() bool {
	gid := Goid()
	s.mu.Lock()
	defer s.mu.Unlock()
	return s.held[gid] > 0
}

// Go starts a task. The goroutine parks before running f, so the start order
// is a scheduling decision like any other.
func (s *Sim) Go(label string, f func()) {
	t := &task{label: label}
	s.mu.Lock()
	if _, dup := s.tasks[label]; dup {
		s.mu.Unlock()
		panic("sim: duplicate task label " + label)
	}
	s.tasks[label] = t
	s.taskSeq = append(s.taskSeq, label)
	s.mu.Unlock()
	go func() {
		s.SetLabel(label)
		defer func() {
			if r := recover(); r != nil {
				buf := make([]byte, 8<<10)
				n := runtime.Stack(buf, false)
				s.mu.Lock()
				t.pan = r
				t.stack = string(buf[:n])
				s.mu.Unlock()
			}
			s.mu.Lock()
			t.done = true
			s.mu.Unlock()
		}()
		s.Park("start")
		if s.Closed() {
			return // the run ended (or this instance was killed) before the task ever ran
		}
		f()
	}()
}

// TaskPanic returns the recovered panic of a task, if any.
func (s *Sim) TaskPanic(label string) (any, string) {
	s.mu.Lock()
	defer s.mu.Unlock()
	if t := s.tasks[label]; t != nil {
		return t.pan, t.stack
	}
	return nil, ""
}

// Kill marks every goroutine whose label starts with prefix as belonging to a
// dead process: they are never released again (until Close).
func (s *Sim) Kill(prefix string) {
	s.mu.Lock()
	s.dead = append(s.dead, prefix)
	for _, t := range s.tasks {
		if strings.HasPrefix(t.label, prefix) {
			t.dead = true
		}
	}
	s.mu.Unlock()
}

func (s *Sim) isDead(l string) bool {
	for _, p := range s.dead {
		if strings.HasPrefix(l, p) {
			return true
		}
	}
	return false
}

func (s *Sim) liveTasks() int {
	n := 0
	for _, t := range s.tasks {
		if !t.done && !t.dead {
			n++
		}
	}
	return n
}

// PendingTasks lists the labels of unfinished live tasks (sorted).
func (s *Sim) PendingTasks() []string {
	s.mu.Lock()
	defer s.mu.Unlock()
	var out []string
	for _, l := range s.taskSeq {
		t := s.tasks[l]
		if !t.done && !t.dead {
			out = append(out, l)
		}
	}
	sort.Strings(out)
	return out
}

type RunResult int

const (
	Done     RunResult = iota // all live tasks finished
	Stopped                   // StopAt reached
	Hung                      // live tasks remain but nothing is runnable
	Capped                    // step cap reached
	Quiesced                  // Drain: nothing parked any more
)

// Run schedules until every live task has finished.
func (s *Sim) Run() RunResult { return s.loop(false) }

// Drain schedules until nothing is parked any more (background work done).
func (s *Sim) Drain() RunResult { return s.loop(true) }

// liveHolders lists the goroutines of live instances that hold a cache mutex
// at this quiescent point: parked at an R8 point (YieldHeld) or durably
// blocked inside the region (a channel operation). Caller holds s.mu.
func (s *Sim) liveHolders() map[int64]bool {
	var out map[int64]bool
	for gid, n := range s.held {
		if n <= 0 {
			continue
		}
		l, ok := s.labels[gid]
		if a, isAlias := s.alias[gid]; isAlias {
			l = a
		}
		if !ok || l == "" || s.isDead(l) {
			continue
		}
		if out == nil {
			out = map[int64]bool{}
		}
		out[gid] = true
	}
	return out
}

func (s *Sim) candidates() []*entry {
	var c []*entry
	// While somebody holds a cache mutex only the holder itself and the
	// background remover (which never takes the mutex) may proceed: anybody
	// else might block on the real sync.Mutex, which is not a durable block.
	holders := s.liveHolders()
	for _, e := range s.parked {
		if s.isDead(e.glab) {
			continue
		}
		if holders != nil && !holders[e.gid] && !isRemover(e.glab) {
			continue
		}
		c = append(c, e)
	}
	sort.SliceStable(c, func(i, j int) bool { return c[i].label < c[j].label })
	for i := 1; i < len(c); i++ {
		if c[i].label == c[i-1].label {
			s.Ambig++
		}
	}
	return c
}

func isRemover(l string) bool { return strings.HasSuffix(l, "remover") }

// Progress counts scheduler iterations of all simulations in this process. The
// worker's stall watchdog (real time, outside the bubble) reads it: a goroutine
// blocked on a real mutex that nobody will release keeps synctest.Wait from
// returning, and the counter stops.
var Progress atomic.Int64

func (s *Sim) loop(drain bool) RunResult {
	idle := 0
	for {
		Progress.Add(1)
		synctest.Wait()
		s.flushNotes()
		s.mu.Lock()
		inRegion := s.liveHolders() != nil
		s.mu.Unlock()
		if s.StepHook != nil && !inRegion {
			// (the oracles take the cache mutex themselves)
			s.StepHook(s)
		}
		s.mu.Lock()
		live := s.liveTasks()
		c := s.candidates()
		s.mu.Unlock()
		if inRegion {
			s.mu.Lock()
			s.Probes["r8_point_inside_mutex_region"]++
			s.mu.Unlock()
		}
		if !drain && live == 0 && !inRegion {
			return Done
		}
		if len(c) == 0 {
			if drain && live == 0 && !inRegion {
				return Quiesced
			}
			// Nothing runnable: let simulated time pass (pollers, timers).
			if idle < 8 {
				idle++
				time.Sleep(250 * time.Millisecond)
				continue
			}
			return Hung
		}
		idle = 0
		if s.StopAt > 0 && s.Steps+1 >= s.StopAt && !inRegion {
			// (a stop - the kill of the crash scenarios - never lands inside
			// a region that holds the cache mutex: no file-system step
			// separates it from the region's end)
			return Stopped
		}
		if s.Steps >= s.StepCap {
			s.Aborted = "step cap"
			return Capped
		}
		e := s.pick(c)
		s.mu.Lock()
		s.Steps++
		s.mu.Unlock()
		if e.glab != s.lastG && s.lastG != "" {
			// a switch away from a goroutine that is still runnable
			for _, o := range c {
				if o.glab == s.lastG {
					s.Preempts++
					break
				}
			}
		}
		s.lastG = e.glab
		s.trace.Write([]byte(e.label))
		s.trace.Write([]byte{0})
		if len(s.TraceLog) < s.KeepLog {
			s.TraceLog = append(s.TraceLog, strconv.Itoa(s.Steps)+" "+e.label)
		}
		s.mu.Lock()
		for i, p := range s.parked {
			if p == e {
				s.parked = append(s.parked[:i], s.parked[i+1:]...)
				break
			}
		}
		s.mu.Unlock()
		close(e.ch)
	}
}

func (s *Sim) pick(c []*entry) *entry {
	// Policy filters.
	var rem, normal, low []*entry
	for _, e := range c {
		switch {
		case isRemover(e.glab):
			rem = append(rem, e)
		case e.low:
			low = append(low, e)
		default:
			normal = append(normal, e)
		}
	}
	switch {
	case s.Policy.RemoverFirst && len(rem) > 0:
		c = rem
	case len(normal) > 0:
		c = normal
		if !s.Policy.StarveRemover {
			c = append(c, rem...)
		}
	case len(low) > 0:
		c = low
		if !s.Policy.StarveRemover {
			c = append(c, rem...)
		}
	default:
		c = rem
	}
	sort.SliceStable(c, func(i, j int) bool { return c[i].label < c[j].label })
	if len(c) == 1 {
		return c[0]
	}
	// Default candidate: the goroutine that ran last if still runnable, else
	// the lowest label. Rotate it to index 0.
	def := 0
	if s.Policy.Sticky > 0 {
		for i, e := range c {
			if e.glab == s.lastG {
				def = i
				break
			}
		}
	}
	if def != 0 {
		d := c[def]
		copy(c[1:def+1], c[:def])
		c[0] = d
	}
	if s.Policy.Sticky > 0 {
		if s.Sched.Choose(8) < s.Policy.Sticky {
			return c[0]
		}
	}
	return c[s.Sched.Choose(len(c))]
}

// TraceHash identifies the schedule actually executed.
func (s *Sim) TraceHash() string {
	return hex.EncodeToString(s.trace.Sum(nil))[:16]
}

// Note mixes an observation into the trace hash (operation results), so that
// the determinism self-test compares outcomes and not only schedules.
func (s *Sim) Note(format string, a ...any) {
	msg := fmt.Sprintf(format, a...)
	s.mu.Lock()
	if !s.closed {
		s.notes = append(s.notes, msg)
	}
	s.mu.Unlock()
}

// flushNotes folds the notes made since the last quiescent point into the
// trace in sorted order (several goroutines may have run in parallel between
// two decisions; their arrival order is not part of the execution).
func (s *Sim) flushNotes() {
	s.mu.Lock()
	n := s.notes
	s.notes = nil
	s.mu.Unlock()
	if len(n) == 0 {
		return
	}
	sort.Strings(n)
	for _, msg := range n {
		s.trace.Write([]byte("N:" + msg))
		s.trace.Write([]byte{0})
		if len(s.TraceLog) < s.KeepLog {
			s.TraceLog = append(s.TraceLog, "  # "+msg)
		}
	}
}

// NoteCreated records that the code under test is about to create a file.
func (s *Sim) NoteCreated(path string) {
	s.mu.Lock()
	if !s.closed {
		s.created = append(s.created, path)
	}
	s.mu.Unlock()
}

// Created lists the files created so far, oldest first.
func (s *Sim) Created() []string {
	s.mu.Lock()
	defer s.mu.Unlock()
	return append([]string(nil), s.created...)
}

// Now is the global event sequence number (scheduling steps so far).
func (s *Sim) Now() int {
	s.mu.Lock()
	defer s.mu.Unlock()
	return s.Steps
}

// Yield is the entry point of the hooks spliced into bazel-remote: a no-op
// while the goroutine holds a cache mutex (a goroutine must never park
// holding it: sync.Mutex waiters are not durably blocked).
func (s *Sim) Yield(point string) { s.park("", point, true) }

// BlockedHolder reports whether a goroutine of a live instance holds a cache
// mutex without being parked at a scheduling point, i.e. is blocked inside
// the region by the code under test itself. Meaningful at a quiescent point.
func (s *Sim) BlockedHolder() bool {
	s.mu.Lock()
	defer s.mu.Unlock()
	for gid := range s.liveHolders() {
		isParked := false
		for _, e := range s.parked {
			isParked = isParked || e.gid == gid
		}
		if !isParked {
			return true
		}
	}
	return false
}

// YieldHeld is a scheduling point that also exists inside a region holding a
// cache mutex (rule R8). While the caller is parked there holding the mutex,
// only it and the remover are candidates (see candidates).
func (s *Sim) YieldHeld(point string) { s.park("", point, false) }

// HeldDelta tracks cache mutex ownership of the calling goroutine.
func (s *Sim) HeldDelta(d int) { s.heldDelta(d) }

// ChooseSelect is a scheduling decision taken by a goroutine of the system
// under test: which case of a select with several ready cases is looked at
// first (Go itself picks pseudo-randomly). Recorded on the schedule tape.
func (s *Sim) ChooseSelect(point string, n int) int {
	gid := Goid()
	s.mu.Lock()
	defer s.mu.Unlock()
	if s.closed || s.Inert || n <= 1 {
		return 0
	}
	if l := s.labelOf(gid); l == "" {
		return 0
	}
	return s.Sched.Choose(n)
}
