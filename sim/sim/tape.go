package sim

// A Tape is the single source of every random decision of one run. In
// generation mode values come from a PRNG seeded with the run's seed and are
// recorded; in replay mode they are read back (missing entries read as 0, and
// out-of-range entries are reduced modulo n) so that a shortened or edited tape
// is always a valid run. Value 0 is, by convention of every caller, the
// simplest choice (lowest label, no fault, smallest size) which is what makes
// tape shrinking meaningful.
type Tape struct {
	Vals   []uint32
	pos    int
	rng    *pcg
	replay bool
}

func NewTape(seed uint64) *Tape {
	return &Tape{rng: newPCG(seed)}
}

func ReplayTape(vals []uint32) *Tape {
	return &Tape{Vals: append([]uint32(nil), vals...), replay: true}
}

// Choose returns a value in [0,n).
func (t *Tape) Choose(n int) int {
	if n <= 1 {
		// Still consume a slot so that tapes stay aligned when n varies
		// between a run and its shrunk variants? No: callers with n<=1 have
		// no decision to make; nothing is recorded.
		return 0
	}
	if t.replay {
		var v uint32
		if t.pos < len(t.Vals) {
			v = t.Vals[t.pos]
		}
		t.pos++
		return int(v % uint32(n))
	}
	v := uint32(t.rng.next() % uint64(n))
	t.Vals = append(t.Vals, v)
	t.pos++
	return int(v)
}

// Used returns the prefix of the tape consumed so far.
func (t *Tape) Used() []uint32 {
	n := t.pos
	if n > len(t.Vals) {
		out := make([]uint32, n)
		copy(out, t.Vals)
		return out
	}
	return append([]uint32(nil), t.Vals[:n]...)
}

// pcg is a small PCG-XSH-RR style generator; own implementation so that the
// stream does not depend on the Go release.
type pcg struct{ state, inc uint64 }

func newPCG(seed uint64) *pcg {
	p := &pcg{inc: (seed << 1) | 1}
	p.next()
	p.state += 0x853c49e6748fea9b ^ seed
	p.next()
	return p
}

func (p *pcg) next32() uint32 {
	old := p.state
	p.state = old*6364136223846793005 + p.inc
	xs := uint32(((old >> 18) ^ old) >> 27)
	rot := uint32(old >> 59)
	return (xs >> rot) | (xs << ((-rot) & 31))
}

func (p *pcg) next() uint64 {
	return uint64(p.next32())<<32 | uint64(p.next32())
}

// Rand is a convenience wrapper over a tape for generators.
type Rand struct{ T *Tape }

func (r Rand) Intn(n int) int { return r.T.Choose(n) }

// Bool is true with probability num/den; 0 (false) is the simple choice.
func (r Rand) Chance(num, den int) bool {
	return r.T.Choose(den) >= den-num
}

// Pick returns an index weighted by w; index 0 should be the simplest option.
func (r Rand) Weighted(w ...int) int {
	tot := 0
	for _, x := range w {
		tot += x
	}
	v := r.T.Choose(tot)
	for i, x := range w {
		if v < x {
			return i
		}
		v -= x
	}
	return len(w) - 1
}
