#!/bin/sh
# genmod.sh <repo> <outdir>: writes <outdir>/go.mod and go.sum for the harness
# module: /repo's own requirements (so that nothing is resolved over the
# network) + the harness's, with bazel-remote replaced by the working tree.
set -e
REPO=$1; OUT=$2
mkdir -p "$OUT"
{
  echo "module verifsim"
  echo
  echo "go 1.26"
  echo
  sed -e '/^module /d' -e '/^go [0-9]/d' -e '/^toolchain /d' "$REPO/go.mod"
  echo
  echo "require github.com/buchgr/bazel-remote/v2 v2.0.0-00010101000000-000000000000"
  echo "require github.com/anishathalye/porcupine v1.3.0"
  echo "replace github.com/buchgr/bazel-remote/v2 => $REPO"
} > "$OUT/go.mod"
cat "$REPO/go.sum" /verif/sim/extra.sum > "$OUT/go.sum" 2>/dev/null || cp "$REPO/go.sum" "$OUT/go.sum"
