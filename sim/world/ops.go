package world

import (
	"bytes"
	"context"
	"encoding/base64"
	"encoding/hex"
	"errors"
	"fmt"
	"io"
	"net/http"
	"net/url"
	"os"
	"runtime"
	"sort"
	"strconv"
	"strings"

	"verifsim/fmtv2"
	"verifsim/sim"

	"github.com/buchgr/bazel-remote/v2/cache"
	"github.com/klauspost/compress/zstd"
	"github.com/valyala/gozstd"
	"google.golang.org/genproto/googleapis/bytestream"
	"google.golang.org/grpc/codes"
	"google.golang.org/grpc/status"

	asset "github.com/buchgr/bazel-remote/v2/genproto/build/bazel/remote/asset/v1"
	pb "github.com/buchgr/bazel-remote/v2/genproto/build/bazel/remote/execution/v2"
)

// Res is the normalised outcome of one client operation.
type Res struct {
	OK    bool   // the operation reported success
	Code  string // normalised status
	Found bool   // reads / existence checks: a hit
	Data  []byte // logical bytes delivered (decoded when the transport was zstd)
	Raw   []byte // transport bytes as delivered
	Size  int64  // size reported by the server, -2 if none
	Err   string
	Panic string
	Call  int // event sequence number at invocation
	Ret   int // event sequence number at return
}

func (r Res) String() string {
	return fmt.Sprintf("{ok=%v code=%s found=%v n=%d size=%d}", r.OK, r.Code, r.Found, len(r.Data), r.Size)
}

type Client struct {
	S   *sim.Sim
	N   *Node
	Ctx context.Context
}

func NewClient(s *sim.Sim, n *Node) *Client {
	return &Client{S: s, N: n, Ctx: context.Background()}
}

func httpCode(c int) string {
	switch c {
	case 0, 200:
		return "OK"
	case 400:
		return "InvalidArgument"
	case 404:
		return "NotFound"
	case 507:
		return "ResourceExhausted"
	case 500:
		return "Internal"
	}
	return "HTTP" + strconv.Itoa(c)
}

func errCode(err error) string {
	if err == nil {
		return "OK"
	}
	var ce *cache.Error
	if errors.As(err, &ce) {
		return httpCode(ce.Code)
	}
	if st, ok := status.FromError(err); ok {
		return st.Code().String()
	}
	return "Error"
}

func rpcCode(c int32) string { return codes.Code(c).String() }

// guard runs f and converts a panic of the code under test into a result (in
// production nothing recovers a handler panic on the gRPC side).
func (c *Client) guard(r *Res, f func()) {
	r.Size = -2
	r.Call = c.S.Now()
	// like net/http and grpc-go, cancel the request's context when the
	// handler has returned
	outer := c.Ctx
	ctx, cancel := context.WithCancel(outer)
	c.Ctx = ctx
	defer func() {
		cancel()
		c.Ctx = outer
	}()
	defer func() {
		if p := recover(); p != nil {
			r.Panic = fmt.Sprint(p)
			r.OK = false
			r.Code = "PANIC"
			c.S.Panicked = true
			frames := PanicFrames()
			// also on stderr: if the dead handler held the cache mutex the run
			// may never complete, and the driver classifies from the log
			fmt.Fprintf(os.Stderr, "verif: handler panic: %v | %s\n", p, strings.ReplaceAll(frames, "\n", " < "))
			c.S.Violate("C14.panic", "handler", "handler panicked: %v\n%s", p, frames)
		}
		r.Ret = c.S.Now()
	}()
	f()
}

// PanicFrames returns the frames of the panicking stack that belong to the
// code under test (called from a deferred function).
func PanicFrames() string {
	buf := make([]byte, 32<<10)
	n := runtime.Stack(buf, false)
	var out []string
	lines := strings.Split(string(buf[:n]), "\n")
	for i := 0; i+1 < len(lines); i++ {
		if strings.Contains(lines[i], "buchgr/bazel-remote/v2/") && !strings.HasPrefix(lines[i], "\t") {
			loc := strings.TrimSpace(lines[i+1])
			if j := strings.Index(loc, " +0x"); j >= 0 {
				loc = loc[:j]
			}
			if j := strings.LastIndex(loc, "/"); j >= 0 {
				loc = loc[j+1:]
			}
			fn := lines[i]
			if j := strings.LastIndexByte(fn, '('); j > 0 {
				fn = fn[:j]
			}
			if j := strings.LastIndexByte(fn, '/'); j >= 0 {
				fn = fn[j+1:]
			}
			out = append(out, fn+" ("+loc+")")
			if len(out) >= 8 {
				break
			}
		}
	}
	return strings.Join(out, " < ")
}

var (
	kEnc *zstd.Encoder
	kDec *zstd.Decoder
)

// Compress produces a standard zstd frame with an encoder the harness owns.
func Compress(data []byte, lib bool) []byte {
	if lib {
		return gozstd.Compress(nil, data)
	}
	if kEnc == nil {
		kEnc, _ = zstd.NewWriter(nil, zstd.WithEncoderConcurrency(1))
	}
	return kEnc.EncodeAll(data, nil)
}

// ---------------------------------------------------------------- disk API

func (c *Client) DiskPut(kind cache.EntryKind, hash string, size int64, rd io.Reader) (r Res) {
	c.guard(&r, func() {
		err := c.N.Cache.Put(c.Ctx, kind, hash, size, rd)
		r.OK = err == nil
		r.Code = errCode(err)
		if err != nil {
			r.Err = err.Error()
		}
	})
	return
}

// ReadOpts controls how a returned stream is consumed.
type ReadOpts struct {
	ParkAt int // >=0: park once after that many bytes were consumed
	StopAt int // >=0: stop reading (and close) after that many bytes
}

var FullRead = ReadOpts{ParkAt: -1, StopAt: -1}

func (c *Client) consume(rc io.ReadCloser, o ReadOpts) ([]byte, error) {
	defer rc.Close()
	var out bytes.Buffer
	buf := make([]byte, 64<<10)
	parked := false
	for {
		if o.StopAt >= 0 && out.Len() >= o.StopAt {
			c.S.Fault("download.abort")
			return out.Bytes(), ErrInjected
		}
		if o.ParkAt >= 0 && !parked && out.Len() >= o.ParkAt {
			parked = true
			c.S.Park("consume")
		}
		n, err := rc.Read(buf)
		out.Write(buf[:n])
		if err == io.EOF {
			return out.Bytes(), nil
		}
		if err != nil {
			return out.Bytes(), err
		}
	}
}

func (c *Client) DiskGet(kind cache.EntryKind, hash string, size, offset int64, z bool, o ReadOpts) (r Res) {
	c.guard(&r, func() {
		var rc io.ReadCloser
		var n int64
		var err error
		if z {
			rc, n, err = c.N.Cache.GetZstd(c.Ctx, hash, size, offset)
		} else {
			rc, n, err = c.N.Cache.Get(c.Ctx, kind, hash, size, offset)
		}
		r.Code = errCode(err)
		if err != nil {
			r.Err = err.Error()
			if rc != nil {
				rc.Close()
			}
			return
		}
		if rc == nil {
			r.Code = "NotFound"
			return
		}
		r.Found = true
		r.Size = n
		raw, err := c.consume(rc, o)
		r.Raw = raw
		if err != nil {
			r.Code = "Error"
			r.Err = err.Error()
		}
		if z {
			d, derr := fmtv2.DecodeZstdStream(raw)
			if derr != nil && err == nil {
				r.Code = "BadZstd"
				r.Err = derr.Error()
				return
			}
			r.Data = d
		} else {
			r.Data = raw
		}
		r.OK = err == nil
	})
	return
}

func (c *Client) DiskContains(kind cache.EntryKind, hash string, size int64) (r Res) {
	c.guard(&r, func() {
		ok, n := c.N.Cache.Contains(c.Ctx, kind, hash, size)
		r.OK = true
		r.Code = "OK"
		r.Found = ok
		r.Size = n
	})
	return
}

// ---------------------------------------------------------------- HTTP

type HTTPReq struct {
	Method string
	Path   string
	Header map[string]string
	Body   io.ReadCloser // nil: http.NoBody
	CLen   int64         // Content-Length (-1 unknown)
	FailAt int           // response writer fails at that many body bytes (-1 none)
	ParkAt int
}

func (c *Client) HTTP(q HTTPReq) (r Res, w *RespWriter) {
	w = NewRespWriter(c.S)
	w.FailAt, w.ParkAt = q.FailAt, q.ParkAt
	c.guard(&r, func() {
		body := q.Body
		if body == nil {
			body = http.NoBody
		}
		// like a real client: the path is percent-encoded on the wire
		target := (&url.URL{Scheme: "http", Host: "cache", Path: q.Path}).String()
		req, err := http.NewRequestWithContext(c.Ctx, q.Method, target, body)
		if err != nil {
			// what net/http would answer before the handler runs
			r.Code = "InvalidArgument"
			r.Err = err.Error()
			return
		}
		req.ContentLength = q.CLen
		req.RemoteAddr = "10.0.0.7:4711"
		for k, v := range q.Header {
			req.Header.Set(k, v)
		}
		if q.Path == "/status" {
			c.N.HTTP.StatusPageHandler(w, req)
		} else {
			c.N.HTTP.CacheHandler(w, req)
		}
		r.Code = httpCode(w.Status)
		r.OK = w.Status == 0 || w.Status == 200
		r.Raw = w.Body.Bytes()
		if cl := w.H.Get("Content-Length"); cl != "" {
			r.Size, _ = strconv.ParseInt(cl, 10, 64)
		}
	})
	return
}

// clBody emulates net/http's server-side request body for a given
// Content-Length: never more than cl bytes, io.ErrUnexpectedEOF if the client
// sent fewer.
type clBody struct {
	r    io.ReadCloser
	left int64
}

func (b *clBody) Read(p []byte) (int, error) {
	if b.left <= 0 {
		return 0, io.EOF
	}
	if int64(len(p)) > b.left {
		p = p[:b.left]
	}
	n, err := b.r.Read(p)
	b.left -= int64(n)
	if err == io.EOF && b.left > 0 {
		return n, io.ErrUnexpectedEOF
	}
	if err == nil || err == io.EOF {
		// like net/http's server-side body: the final bytes of a body with a
		// Content-Length come together with io.EOF
		if b.left == 0 {
			return n, io.EOF
		}
		return n, nil
	}
	return n, err
}
func (b *clBody) Close() error { return b.r.Close() }

func LimitBody(r io.ReadCloser, cl int64) io.ReadCloser { return &clBody{r: r, left: cl} }

func (c *Client) HTTPGet(path string, acceptZstd bool, o ReadOpts) (r Res) {
	q := HTTPReq{Method: "GET", Path: path, CLen: 0, FailAt: o.StopAt, ParkAt: o.ParkAt, Header: map[string]string{}}
	if acceptZstd {
		q.Header["Accept-Encoding"] = "gzip, zstd"
	}
	r, w := c.HTTP(q)
	if r.Panic != "" {
		return
	}
	if w.Status == 200 || w.Status == 0 {
		r.Found = true
		if w.H.Get("Content-Encoding") == "zstd" {
			d, err := fmtv2.DecodeZstdStream(r.Raw)
			if err != nil {
				if q.FailAt < 0 {
					r.OK = false
					r.Code = "BadZstd"
					r.Err = err.Error()
				}
			} else {
				r.Data = d
			}
		} else {
			r.Data = r.Raw
		}
		if q.FailAt >= 0 && w.FailAt >= 0 && w.Body.Len() >= w.FailAt {
			r.OK = false // the client gave up
			r.Code = "Error"
		}
	}
	return
}

func (c *Client) HTTPHead(path string) (r Res) {
	r, w := c.HTTP(HTTPReq{Method: "HEAD", Path: path, FailAt: -1, ParkAt: -1})
	r.Found = w.Status == 200 || w.Status == 0
	return
}

// ---------------------------------------------------------------- gRPC CAS

func Digest(hash string, size int64) *pb.Digest { return &pb.Digest{Hash: hash, SizeBytes: size} }

func (c *Client) FindMissing(ds []*pb.Digest) (r Res, missing []*pb.Digest) {
	c.guard(&r, func() {
		// the handler edits the request slice in place: give it a copy
		in := make([]*pb.Digest, len(ds))
		for i, d := range ds {
			if d != nil {
				in[i] = &pb.Digest{Hash: d.Hash, SizeBytes: d.SizeBytes}
			}
		}
		resp, err := c.N.GRPC.FindMissingBlobs(c.Ctx, &pb.FindMissingBlobsRequest{BlobDigests: in})
		r.Code = errCode(err)
		r.OK = err == nil
		if err != nil {
			r.Err = err.Error()
			return
		}
		missing = resp.MissingBlobDigests
	})
	return
}

type BatchItem struct {
	Hash string
	Size int64
	Data []byte
	Zstd bool
	Comp int32 // explicit compressor value if != 0 and !Zstd
}

func (c *Client) BatchUpdate(items []BatchItem) (r Res, per []string) {
	c.guard(&r, func() {
		req := &pb.BatchUpdateBlobsRequest{}
		for _, it := range items {
			q := &pb.BatchUpdateBlobsRequest_Request{Digest: Digest(it.Hash, it.Size), Data: append([]byte(nil), it.Data...)}
			if it.Zstd {
				q.Compressor = pb.Compressor_ZSTD
			} else if it.Comp != 0 {
				q.Compressor = pb.Compressor_Value(it.Comp)
			}
			req.Requests = append(req.Requests, q)
		}
		resp, err := c.N.GRPC.BatchUpdateBlobs(c.Ctx, req)
		r.Code = errCode(err)
		r.OK = err == nil
		if err != nil {
			r.Err = err.Error()
			return
		}
		for _, x := range resp.Responses {
			per = append(per, rpcCode(x.GetStatus().GetCode()))
		}
	})
	return
}

type BatchReadItem struct {
	Code string
	Data []byte // logical bytes
	Comp string
	Err  string
}

func (c *Client) BatchRead(ds []*pb.Digest, acceptZstd bool) (r Res, per []BatchReadItem) {
	c.guard(&r, func() {
		req := &pb.BatchReadBlobsRequest{Digests: ds}
		if acceptZstd {
			req.AcceptableCompressors = []pb.Compressor_Value{pb.Compressor_ZSTD}
		}
		resp, err := c.N.GRPC.BatchReadBlobs(c.Ctx, req)
		r.Code = errCode(err)
		r.OK = err == nil
		if err != nil {
			r.Err = err.Error()
			return
		}
		for _, x := range resp.Responses {
			it := BatchReadItem{Code: rpcCode(x.GetStatus().GetCode()), Comp: x.Compressor.String()}
			if it.Code == "OK" {
				if x.Compressor == pb.Compressor_ZSTD {
					d, err := fmtv2.DecodeZstdStream(x.Data)
					if err != nil {
						it.Code = "BadZstd"
						it.Err = err.Error()
					}
					it.Data = d
				} else {
					it.Data = x.Data
				}
			}
			per = append(per, it)
		}
	})
	return
}

func (c *Client) GetTree(hash string, size int64) (r Res, dirs []*pb.Directory) {
	c.guard(&r, func() {
		ts := &TreeStream{streamBase: streamBase{Ctx: c.Ctx}}
		err := c.N.GRPC.GetTree(&pb.GetTreeRequest{RootDigest: Digest(hash, size)}, ts)
		r.Code = errCode(err)
		r.OK = err == nil
		if err != nil {
			r.Err = err.Error()
			return
		}
		r.Found = true
		for _, x := range ts.Resps {
			dirs = append(dirs, x.Directories...)
		}
	})
	return
}

func (c *Client) Splice(blob *pb.Digest, chunks []*pb.Digest) (r Res, got *pb.Digest) {
	c.guard(&r, func() {
		resp, err := c.N.GRPC.SpliceBlob(c.Ctx, &pb.SpliceBlobRequest{BlobDigest: blob, ChunkDigests: chunks})
		r.Code = errCode(err)
		r.OK = err == nil
		if err != nil {
			r.Err = err.Error()
			return
		}
		got = resp.BlobDigest
	})
	return
}

func (c *Client) Capabilities() (r Res, caps *pb.ServerCapabilities) {
	c.guard(&r, func() {
		resp, err := c.N.GRPC.GetCapabilities(c.Ctx, &pb.GetCapabilitiesRequest{})
		r.Code = errCode(err)
		r.OK = err == nil
		caps = resp
	})
	return
}

// ---------------------------------------------------------------- ByteStream

func ReadName(instance, hash string, size int64, z bool) string {
	p := ""
	if instance != "" {
		p = instance + "/"
	}
	if z {
		return fmt.Sprintf("%scompressed-blobs/zstd/%s/%d", p, hash, size)
	}
	return fmt.Sprintf("%sblobs/%s/%d", p, hash, size)
}

func WriteName(instance, uuid, hash string, size int64, z bool, meta string) string {
	p := ""
	if instance != "" {
		p = instance + "/"
	}
	var s string
	if z {
		s = fmt.Sprintf("%suploads/%s/compressed-blobs/zstd/%s/%d", p, uuid, hash, size)
	} else {
		s = fmt.Sprintf("%suploads/%s/blobs/%s/%d", p, uuid, hash, size)
	}
	if meta != "" {
		s += "/" + meta
	}
	return s
}

func (c *Client) BSRead(name string, offset, limit int64, z bool, o ReadOpts) (r Res) {
	c.guard(&r, func() {
		rs := &ReadStream{streamBase: streamBase{Ctx: c.Ctx}, S: c.S, FailAt: o.StopAt, ParkAt: o.ParkAt}
		err := c.N.GRPC.Read(&bytestream.ReadRequest{ResourceName: name, ReadOffset: offset, ReadLimit: limit}, rs)
		r.Code = errCode(err)
		r.Raw = rs.Data.Bytes()
		if err != nil {
			r.Err = err.Error()
			if !z {
				r.Data = r.Raw
			}
			r.Found = r.Code != "NotFound"
			return
		}
		r.OK = true
		r.Found = true
		if z {
			d, derr := fmtv2.DecodeZstdStream(r.Raw)
			if derr != nil {
				r.OK = false
				r.Code = "BadZstd"
				r.Err = derr.Error()
				return
			}
			r.Data = d
		} else {
			r.Data = r.Raw
		}
	})
	return
}

// BSWrite plays a scripted message sequence against ByteStream.Write.
func (c *Client) BSWrite(msgs []WriteMsg, endErr error) (r Res, ws *WriteStream) {
	ctx, cancel := context.WithCancel(c.Ctx)
	ws = &WriteStream{streamBase: streamBase{Ctx: ctx}, S: c.S, Msgs: msgs, EndErr: endErr, Cancel: cancel}
	c.guard(&r, func() {
		err := c.N.GRPC.Write(ws)
		r.Code = errCode(err)
		r.OK = err == nil
		if err != nil {
			r.Err = err.Error()
			return
		}
		if ws.Resp != nil {
			r.Size = ws.Resp.CommittedSize
		}
	})
	cancel() // grpc-go cancels the stream context when the handler returns
	return
}

// SplitMsgs turns a payload into Write messages cut at the given offsets; the
// first message carries the resource name, the last one finish_write if asked.
func SplitMsgs(name string, payload []byte, cuts []int, finish bool, park bool) []WriteMsg {
	pts := []int{0}
	c := append([]int(nil), cuts...)
	sort.Ints(c)
	for _, x := range c {
		if x > pts[len(pts)-1] && x < len(payload) {
			pts = append(pts, x)
		}
	}
	pts = append(pts, len(payload))
	var out []WriteMsg
	for i := 0; i+1 < len(pts); i++ {
		if i > 0 && pts[i] == pts[i+1] {
			continue
		}
		m := &bytestream.WriteRequest{Data: payload[pts[i]:pts[i+1]], WriteOffset: int64(pts[i])}
		if i == 0 {
			m.ResourceName = name
		}
		out = append(out, WriteMsg{Req: m, Park: park && i > 0})
	}
	if finish {
		out[len(out)-1].Req.FinishWrite = true
	}
	return out
}

func (c *Client) QueryWriteStatus(name string) (r Res, complete bool) {
	c.guard(&r, func() {
		resp, err := c.N.GRPC.QueryWriteStatus(c.Ctx, &bytestream.QueryWriteStatusRequest{ResourceName: name})
		r.Code = errCode(err)
		r.OK = err == nil
		if err != nil {
			r.Err = err.Error()
			return
		}
		r.Size = resp.CommittedSize
		complete = resp.Complete
	})
	return
}

// ---------------------------------------------------------------- AC

func (c *Client) UpdateAR(instance, hash string, ar *pb.ActionResult) (r Res, out *pb.ActionResult) {
	c.guard(&r, func() {
		resp, err := c.N.GRPC.UpdateActionResult(c.Ctx, &pb.UpdateActionResultRequest{
			InstanceName: instance, ActionDigest: Digest(hash, 42), ActionResult: ar})
		r.Code = errCode(err)
		r.OK = err == nil
		if err != nil {
			r.Err = err.Error()
			return
		}
		out = resp
	})
	return
}

type InlineReq struct {
	Stdout, Stderr bool
	Files          []string
}

func (c *Client) GetAR(instance, hash string, in InlineReq) (r Res, out *pb.ActionResult) {
	c.guard(&r, func() {
		resp, err := c.N.GRPC.GetActionResult(c.Ctx, &pb.GetActionResultRequest{
			InstanceName: instance, ActionDigest: Digest(hash, 42),
			InlineStdout: in.Stdout, InlineStderr: in.Stderr, InlineOutputFiles: in.Files})
		r.Code = errCode(err)
		r.OK = err == nil
		if err != nil {
			r.Err = err.Error()
			return
		}
		r.Found = true
		out = resp
	})
	return
}

// ---------------------------------------------------------------- Remote Asset

// Origin is what the simulated http.DefaultClient transport serves for
// FetchBlob URIs of the form http://origin/<name>.
type OriginObj struct {
	Body     []byte
	CLen     int64 // announced Content-Length (-1: none)
	Status   int
	BreakAt  int // >=0: the body fails with a transport error at that byte
	Requests int
}

var origin = map[string]*OriginObj{}

func SetOrigin(name string, o *OriginObj) { origin[name] = o }
func ResetOrigin()                        { origin = map[string]*OriginObj{} }

type assetTransport struct{}

type breakBody struct {
	r    *bytes.Reader
	left int
}

func (b *breakBody) Read(p []byte) (int, error) {
	if b.left >= 0 {
		if b.left == 0 {
			return 0, io.ErrUnexpectedEOF
		}
		if len(p) > b.left {
			p = p[:b.left]
		}
	}
	n, err := b.r.Read(p)
	if b.left >= 0 {
		b.left -= n
	}
	return n, err
}
func (b *breakBody) Close() error { return nil }

func (assetTransport) RoundTrip(req *http.Request) (*http.Response, error) {
	name := strings.TrimPrefix(req.URL.Path, "/")
	o := origin[name]
	if req.URL.Host != "origin" || o == nil {
		return &http.Response{StatusCode: 404, Status: "404 Not Found", Body: http.NoBody, ContentLength: 0, Header: http.Header{}, Request: req}, nil
	}
	o.Requests++
	if s := sim.Cur(); s != nil {
		s.Park("origin")
	}
	st := o.Status
	if st == 0 {
		st = 200
	}
	return &http.Response{StatusCode: st, Status: strconv.Itoa(st), Body: &breakBody{r: bytes.NewReader(o.Body), left: o.BreakAt},
		ContentLength: o.CLen, Header: http.Header{}, Request: req}, nil
}

func SRI(hash string) string {
	b, _ := hex.DecodeString(hash)
	return "sha256-" + base64.StdEncoding.EncodeToString(b)
}

func (c *Client) FetchBlob(uris []string, sriHash string) (r Res, d *pb.Digest) {
	c.guard(&r, func() {
		req := &asset.FetchBlobRequest{Uris: uris}
		if sriHash != "" {
			req.Qualifiers = []*asset.Qualifier{{Name: "checksum.sri", Value: SRI(sriHash)}}
		}
		resp, err := c.N.GRPC.FetchBlob(c.Ctx, req)
		r.Code = errCode(err)
		if err != nil {
			r.Err = err.Error()
			return
		}
		r.Code = rpcCode(resp.GetStatus().GetCode())
		r.OK = r.Code == "OK"
		d = resp.BlobDigest
		if d != nil {
			r.Size = d.SizeBytes
		}
	})
	return
}
