package world

import (
	"crypto/sha256"
	"encoding/hex"
	"fmt"
	"sync"
)

// Blob content is a pure function of (Kind, Seed, Size) and is regenerated on
// demand; every oracle compares against this, never against what the cache
// returned earlier.
type BlobID struct {
	Kind int   `json:"k"` // 0 random (incompressible), 1 zeros, 2 text (compressible), 3 periodic family (see Make)
	Seed int   `json:"s"`
	Size int64 `json:"n"`
}

type Blob struct {
	ID   BlobID
	Data []byte
	Hash string
}

func (b *Blob) Size() int64 { return int64(len(b.Data)) }

func (id BlobID) String() string { return fmt.Sprintf("b%d.%d/%d", id.Kind, id.Seed, id.Size) }

var blobCache sync.Map // BlobID -> *Blob

const EmptySha256 = "e3b0c44298fc1c149afbf4c8996fb92427ae41e4649b934ca495991b7852b855"

func Make(id BlobID) *Blob {
	if v, ok := blobCache.Load(id); ok {
		return v.(*Blob)
	}
	data := make([]byte, id.Size)
	switch id.Kind {
	case 0:
		x := uint64(id.Seed)*0x9E3779B97F4A7C15 + 0x1234567
		for i := 0; i < len(data); i += 8 {
			x ^= x << 13
			x ^= x >> 7
			x ^= x << 17
			v := x
			for j := 0; j < 8 && i+j < len(data); j++ {
				data[i+j] = byte(v)
				v >>= 8
			}
		}
	case 1:
		// zeros, but make distinct seeds distinct blobs: a short tag at the start
		tag := fmt.Sprintf("%d", id.Seed)
		copy(data, tag)
	case 3:
		// Periodic with period 4096 (divides the 1 MiB chunk size), and all
		// kind-3 blobs agree except in the first 16 bytes of each period: a
		// truncated or torn kind-3 blob is completed correctly by stale bytes
		// of its own previous chunk or of a sibling handled just before, so
		// that code which reuses buffers without clearing them is exposed.
		var unit [4096]byte
		for i := range unit {
			unit[i] = "0123456789abcdefghijklmnopqrstuvwxyz\n"[(i*7+i/37)%37]
		}
		h := sha256.Sum256([]byte(fmt.Sprintf("family-member-%d", id.Seed)))
		copy(unit[:16], h[:])
		for i := 0; i < len(data); {
			i += copy(data[i:], unit[:])
		}
	default:
		line := fmt.Sprintf("line %d of blob seed %d: the quick brown fox jumps over the lazy dog\n", 0, id.Seed)
		for i := 0; i < len(data); {
			i += copy(data[i:], line)
		}
		tag := fmt.Sprintf("%d|", id.Seed)
		copy(data, tag)
	}
	return FromBytes(id, data)
}

func FromBytes(id BlobID, data []byte) *Blob {
	h := sha256.Sum256(data)
	b := &Blob{ID: id, Data: data, Hash: hex.EncodeToString(h[:])}
	if id.Seed >= 0 {
		blobCache.Store(id, b)
	}
	return b
}

func HashOf(data []byte) string {
	h := sha256.Sum256(data)
	return hex.EncodeToString(h[:])
}

// SizeClasses are the logical sizes the generators draw from; index 0 is the
// simplest.
var SizeClasses = []int64{100, 1, 4095, 4096, 4097, 65536, 1<<20 - 1, 1 << 20, 1<<20 + 1, 2<<20 + 17, 3 << 20}
