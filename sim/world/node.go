package world

import (
	"fmt"
	"io"
	"log"
	"net/http"
	"os"
	"path/filepath"
	"regexp"
	"sort"
	"strings"
	"time"

	"verifsim/sim"

	"github.com/buchgr/bazel-remote/v2/cache"
	"github.com/buchgr/bazel-remote/v2/cache/disk"
	"github.com/buchgr/bazel-remote/v2/server"
	"github.com/buchgr/bazel-remote/v2/utils/simhook"
)

// NodeCfg is the per-run configuration of one bazel-remote instance.
type NodeCfg struct {
	Storage      string `json:"storage"` // "zstd" | "uncompressed"
	Zstd         string `json:"zstd"`    // "go" | "cgo"
	MaxSize      int64  `json:"max_size"`
	HardLimit    int64  `json:"hard_limit,omitempty"`
	MaxBlob      int64  `json:"max_blob,omitempty"`       // 0 = default (unlimited)
	MaxProxyBlob int64  `json:"max_proxy_blob,omitempty"` // 0 = default
	ValidateAC   bool   `json:"validate_ac"`
	DepsCheck    bool   `json:"deps_check"`
	Mangle       bool   `json:"mangle,omitempty"`
	Metrics      bool   `json:"metrics,omitempty"`
}

type Node struct {
	Gen   string // label prefix, e.g. "g0:"
	Dir   string
	Cfg   NodeCfg
	Cache disk.Cache
	HTTP  server.HTTPCache
	GRPC  server.VerifGRPC
	Proxy cache.Proxy
	Err   error // start-up error
}

var discardLogger = log.New(io.Discard, "", 0)

const MaxInt64 = int64(^uint64(0) >> 1)

func (c NodeCfg) EffMaxBlob() int64 {
	if c.MaxBlob > 0 {
		return c.MaxBlob
	}
	return MaxInt64
}

// StartNode launches the start-up of an instance as a task ("<gen>startup");
// the caller runs the scheduler until it completes.
func StartNode(s *sim.Sim, gen, dir string, cfg NodeCfg, proxy cache.Proxy) *Node {
	n := &Node{Gen: gen, Dir: dir, Cfg: cfg, Proxy: proxy}
	s.Go(gen+"startup", func() {
		opts := []disk.Option{
			disk.WithStorageMode(cfg.Storage),
			disk.WithZstdImplementation(cfg.Zstd),
			disk.WithAccessLogger(discardLogger),
		}
		if cfg.MaxBlob > 0 {
			opts = append(opts, disk.WithMaxBlobSize(cfg.MaxBlob))
		}
		if cfg.MaxProxyBlob > 0 {
			opts = append(opts, disk.WithProxyMaxBlobSize(cfg.MaxProxyBlob))
		}
		if cfg.HardLimit > 0 {
			opts = append(opts, disk.WithMaxSizeHardLimit(cfg.HardLimit))
		}
		if proxy != nil {
			opts = append(opts, disk.WithProxyBackend(proxy))
		}
		if cfg.Metrics {
			opts = append(opts, disk.WithEndpointMetrics())
		}
		c, err := disk.New(dir, cfg.MaxSize, opts...)
		if err != nil {
			n.Err = err
			return
		}
		n.Cache = c
		n.HTTP = server.NewHTTPCache(c, discardLogger, discardLogger, cfg.ValidateAC, cfg.Mangle, false, false, "", "", cfg.EffMaxBlob())
		n.GRPC = server.NewVerifGRPC(c, discardLogger, discardLogger, cfg.DepsCheck, cfg.Mangle, cfg.EffMaxBlob())
	})
	return n
}

var suffixRe = regexp.MustCompile(`^([a-f0-9]{64})(-[0-9]+)?-([0-9a-zA-Z]+)(\.v1)?$`)

// NormPath turns an absolute path of a cache file into a name that is stable
// across runs: the directory is dropped, the hash shortened and the random
// suffix removed.
func NormPath(p string) string {
	for _, seg := range []string{"/cas.v2/", "/ac.v2/", "/raw.v2/", "/cas/", "/ac/", "/raw/"} {
		if i := strings.LastIndex(p, seg); i >= 0 {
			rest := p[i+1:]
			dir, base := filepath.Split(rest)
			if m := suffixRe.FindStringSubmatch(base); m != nil {
				base = m[1][:10] + m[2] + m[4]
			} else if len(base) == 64 {
				base = base[:10]
			}
			return dir + base
		}
	}
	return filepath.Base(p)
}

// InstallHooks connects the hooks spliced into bazel-remote to the active
// simulation.
func InstallHooks() {
	log.SetOutput(io.Discard)
	simhook.YieldFn = func(point string, arg any) {
		s := sim.Cur()
		if s == nil {
			return
		}
		if p, ok := arg.(string); ok {
			if strings.HasPrefix(point, "tempfile.go:Create:") {
				s.NoteCreated(p)
			}
			point += "(" + NormPath(p) + ")"
		}
		s.Yield(point)
	}
	simhook.YieldHeldFn = func(point string) {
		if s := sim.Cur(); s != nil {
			s.YieldHeld(point)
		}
	}
	simhook.AliasFn = func(key string) {
		if s := sim.Cur(); s != nil {
			s.Alias(key)
		}
	}
	simhook.SelectFn = func(point string, n int) int {
		s := sim.Cur()
		if s == nil {
			return 0
		}
		return s.ChooseSelect(point, n)
	}
	simhook.HeldFn = func(d int) {
		if s := sim.Cur(); s != nil {
			s.HeldDelta(d)
		}
	}
	simhook.AssertHeldFn = func(point string) {
		s := sim.Cur()
		if s == nil {
			return
		}
		if l := s.Label(); l != "" && !s.Inert && !s.Closed() && !s.HeldByCurrent() && !strings.HasSuffix(l, "startup") {
			s.Violate("C07.lock-discipline", point, "index method entered without the cache mutex by %s", s.Label())
		}
	}
	// Remote Asset fetches go through http.DefaultClient.
	http.DefaultClient.Transport = assetTransport{}
}

// FileInfo is one regular file below the cache directory.
type FileInfo struct {
	Rel  string // path relative to the cache dir
	Size int64
}

// ListFiles returns all regular files below dir, sorted by path.
func ListFiles(dir string) []FileInfo {
	var out []FileInfo
	_ = filepath.Walk(dir, func(p string, info os.FileInfo, err error) error {
		if err != nil || info.IsDir() {
			return nil
		}
		rel, _ := filepath.Rel(dir, p)
		out = append(out, FileInfo{Rel: rel, Size: info.Size()})
		return nil
	})
	sort.Slice(out, func(i, j int) bool { return out[i].Rel < out[j].Rel })
	return out
}

// StampTimes gives every file below dir distinct access/modification times
// taken from the simulated file clock: files are stamped in the given order
// (oldest first), anything not listed keeps its relative position after them
// in sorted path order.
func StampTimes(dir string, oldestFirst []string) {
	base := time.Date(2020, 1, 1, 0, 0, 0, 0, time.UTC)
	seen := map[string]bool{}
	i := 0
	for _, rel := range oldestFirst {
		if filepath.IsAbs(rel) {
			r, err := filepath.Rel(dir, rel)
			if err != nil || strings.HasPrefix(r, "..") {
				continue
			}
			rel = r
		}
		if _, err := os.Stat(filepath.Join(dir, rel)); err != nil {
			continue
		}
		if seen[rel] {
			continue
		}
		seen[rel] = true
		t := base.Add(time.Duration(i) * time.Minute)
		_ = os.Chtimes(filepath.Join(dir, rel), t, t)
		i++
	}
	for _, f := range ListFiles(dir) {
		if seen[f.Rel] {
			continue
		}
		t := base.Add(time.Duration(i) * time.Minute)
		_ = os.Chtimes(filepath.Join(dir, f.Rel), t, t)
		i++
	}
}

func (n *Node) String() string { return fmt.Sprintf("%s%s", n.Gen, filepath.Base(n.Dir)) }
