package world

import (
	"context"
	"errors"
	"fmt"
	"io"
	"strings"
	"sync"

	"verifsim/sim"

	"github.com/buchgr/bazel-remote/v2/cache"
	"github.com/buchgr/bazel-remote/v2/cache/grpcproxy"
	"google.golang.org/genproto/googleapis/bytestream"
	"google.golang.org/grpc"
	"google.golang.org/grpc/codes"
	"google.golang.org/grpc/metadata"
	"google.golang.org/grpc/status"
	"google.golang.org/protobuf/proto"

	asset "github.com/buchgr/bazel-remote/v2/genproto/build/bazel/remote/asset/v1"
	pb "github.com/buchgr/bazel-remote/v2/genproto/build/bazel/remote/execution/v2"
)

// SimConn is a simulated grpc.ClientConnInterface (backend b2): calls are
// dispatched to the handlers of a second real bazel-remote instance, messages
// are marshalled and unmarshalled on the way (nothing is shared between the
// two instances), every call parks for the scheduler, and planned faults turn
// into what a gRPC client sees: an error status before the response, a stream
// that breaks or ends early, cancellation.
type SimConn struct {
	S     *sim.Sim
	B     *Node // the backend instance
	mu    sync.Mutex
	armed []*BFault
	seq   map[string]int
	Down  bool
	Log   []string
	Calls map[string]int
}

func NewSimConn(s *sim.Sim, b *Node) *SimConn {
	return &SimConn{S: s, B: b, seq: map[string]int{}, Calls: map[string]int{}}
}

func (c *SimConn) Arm(f *BFault) {
	c.mu.Lock()
	c.armed = append(c.armed, f)
	c.mu.Unlock()
}

func (c *SimConn) Disarm() {
	c.mu.Lock()
	c.armed = nil
	c.mu.Unlock()
}

// take returns the armed fault for a method class: GET = Read / GetActionResult
// / FetchBlob, HEAD = FindMissingBlobs, PUT = Write / UpdateActionResult.
func (c *SimConn) take(class string) *BFault {
	c.mu.Lock()
	defer c.mu.Unlock()
	for i, f := range c.armed {
		if f.Method == class {
			c.armed = append(c.armed[:i], c.armed[i+1:]...)
			f.Fired = true
			return f
		}
	}
	return nil
}

func (c *SimConn) park(method, key string) {
	c.mu.Lock()
	k := method + " " + key
	ord := c.seq[k]
	c.seq[k] = ord + 1
	c.Calls[method]++
	c.mu.Unlock()
	c.S.ParkAs(fmt.Sprintf("be:%s:%s#%d", shortMethod(method), shortName(key), ord), "rpc")
}

func shortMethod(m string) string {
	for i := len(m) - 1; i >= 0; i-- {
		if m[i] == '/' {
			return m[i+1:]
		}
	}
	return m
}

func clone[T proto.Message](m T) T {
	b, err := proto.Marshal(m)
	if err != nil {
		panic(err)
	}
	out := m.ProtoReflect().New().Interface().(T)
	if err := proto.Unmarshal(b, out); err != nil {
		panic(err)
	}
	return out
}

var errUnavailable = status.Error(codes.Unavailable, "simulated: backend unavailable")

func (c *SimConn) Invoke(ctx context.Context, method string, args any, reply any, opts ...grpc.CallOption) error {
	g := c.B.GRPC
	key := ""
	class := "GET"
	switch a := args.(type) {
	case *pb.FindMissingBlobsRequest:
		class = "HEAD"
		if len(a.BlobDigests) > 0 {
			key = "cas/" + a.BlobDigests[0].GetHash()
		}
	case *pb.GetActionResultRequest:
		key = "ac/" + a.GetActionDigest().GetHash()
	case *pb.UpdateActionResultRequest:
		class = "PUT"
		key = "ac/" + a.GetActionDigest().GetHash()
	case *asset.FetchBlobRequest:
		key = "fetch"
		if len(a.Qualifiers) > 0 {
			key = "fetch/" + a.Qualifiers[0].GetValue()
		}
	}
	c.park(method, key)
	if err := ctx.Err(); err != nil {
		return status.FromContextError(err).Err()
	}
	f := c.take(class)
	if f != nil {
		c.S.Fault("backend.b2." + shortMethod(method) + "." + f.Kind)
	}
	if c.Down || (f != nil && f.Kind == "err") {
		return errUnavailable
	}
	if f != nil && f.Kind == "404" {
		return status.Error(codes.NotFound, "simulated: not found")
	}
	var resp proto.Message
	var err error
	switch a := args.(type) {
	case *pb.FindMissingBlobsRequest:
		resp, err = g.FindMissingBlobs(ctx, clone(a))
	case *pb.GetActionResultRequest:
		resp, err = g.GetActionResult(ctx, clone(a))
	case *pb.UpdateActionResultRequest:
		resp, err = g.UpdateActionResult(ctx, clone(a))
	case *pb.GetCapabilitiesRequest:
		resp, err = g.GetCapabilities(ctx, clone(a))
	case *asset.FetchBlobRequest:
		resp, err = g.FetchBlob(ctx, clone(a))
	case *pb.BatchUpdateBlobsRequest:
		resp, err = g.BatchUpdateBlobs(ctx, clone(a))
	case *pb.BatchReadBlobsRequest:
		resp, err = g.BatchReadBlobs(ctx, clone(a))
	default:
		return status.Errorf(codes.Unimplemented, "simulated conn: method %s", method)
	}
	if err != nil {
		if _, ok := status.FromError(err); !ok {
			err = status.Error(codes.Unknown, err.Error())
		}
		return err
	}
	if f != nil && f.Kind == "lost" {
		return errUnavailable // the response is lost after the backend acted
	}
	b, merr := proto.Marshal(resp)
	if merr != nil {
		return status.Error(codes.Internal, merr.Error())
	}
	return proto.Unmarshal(b, reply.(proto.Message))
}

func (c *SimConn) NewStream(ctx context.Context, desc *grpc.StreamDesc, method string, opts ...grpc.CallOption) (grpc.ClientStream, error) {
	if c.Down {
		return nil, errUnavailable
	}
	switch method {
	case "/google.bytestream.ByteStream/Read":
		return &readClientStream{c: c, ctx: ctx, method: method}, nil
	case "/google.bytestream.ByteStream/Write":
		ws := &writeClientStream{c: c, ctx: ctx, method: method, reqs: make(chan *bytestream.WriteRequest), resp: make(chan wsResult, 1)}
		return ws, nil
	}
	return nil, status.Errorf(codes.Unimplemented, "simulated conn: stream %s", method)
}

type clientStreamBase struct{}

func (clientStreamBase) Header() (metadata.MD, error) { return nil, nil }
func (clientStreamBase) Trailer() metadata.MD         { return nil }

// ---- ByteStream.Read (server streaming)

type rsItem struct {
	data []byte
	err  error
}

type readClientStream struct {
	clientStreamBase
	c       *SimConn
	ctx     context.Context
	method  string
	req     *bytestream.ReadRequest
	items   chan rsItem
	fault   *BFault
	sent    int
	started bool
	done    bool
}

func (r *readClientStream) Context() context.Context { return r.ctx }

func (r *readClientStream) SendMsg(m any) error {
	r.req = clone(m.(*bytestream.ReadRequest))
	return nil
}

// srvReadStream is what the backend handler writes to.
type srvReadStream struct {
	streamBase
	out chan rsItem
}

func (s *srvReadStream) Send(m *bytestream.ReadResponse) error {
	select {
	case s.out <- rsItem{data: append([]byte(nil), m.Data...)}:
		return nil
	case <-s.Ctx.Done():
		return status.FromContextError(s.Ctx.Err()).Err()
	}
}

func (r *readClientStream) CloseSend() error {
	if r.started {
		return nil
	}
	r.started = true
	r.c.park(r.method, r.req.GetResourceName())
	r.fault = r.c.take("GET")
	if r.fault != nil {
		r.c.S.Fault("backend.b2.Read." + r.fault.Kind)
	}
	r.items = make(chan rsItem)
	sctx, cancel := context.WithCancel(r.ctx)
	srv := &srvReadStream{streamBase: streamBase{Ctx: sctx}, out: r.items}
	req := r.req
	go func() {
		defer cancel()
		var err error
		if r.c.Down || (r.fault != nil && r.fault.Kind == "err") {
			err = errUnavailable
		} else if r.fault != nil && r.fault.Kind == "404" {
			err = status.Error(codes.NotFound, "simulated: not found")
		} else {
			err = r.c.B.GRPC.Read(req, srv)
		}
		if err == nil {
			err = io.EOF
		} else if _, ok := status.FromError(err); !ok {
			err = status.Error(codes.Unknown, err.Error())
		}
		select {
		case r.items <- rsItem{err: err}:
		case <-r.ctx.Done():
		}
	}()
	return nil
}

func (r *readClientStream) RecvMsg(m any) error {
	if r.done {
		return io.EOF
	}
	if !r.started {
		return errors.New("RecvMsg before CloseSend")
	}
	if r.fault != nil && (r.fault.Kind == "cut" || r.fault.Kind == "short") && r.sent >= r.fault.At {
		r.done = true
		if r.fault.Kind == "short" {
			return io.EOF // the stream ends cleanly although bytes are missing
		}
		return status.Error(codes.Unavailable, "simulated: stream broken")
	}
	select {
	case it := <-r.items:
		if it.err != nil {
			r.done = true
			return it.err
		}
		if r.fault != nil && (r.fault.Kind == "cut" || r.fault.Kind == "short") && r.sent+len(it.data) > r.fault.At {
			it.data = it.data[:r.fault.At-r.sent]
		}
		r.sent += len(it.data)
		m.(*bytestream.ReadResponse).Data = it.data
		return nil
	case <-r.ctx.Done():
		r.done = true
		return status.FromContextError(r.ctx.Err()).Err()
	}
}

// ---- ByteStream.Write (client streaming)

type wsResult struct {
	resp *bytestream.WriteResponse
	err  error
}

type writeClientStream struct {
	clientStreamBase
	c       *SimConn
	ctx     context.Context
	method  string
	reqs    chan *bytestream.WriteRequest
	resp    chan wsResult
	started bool
	closed  bool
	fault   *BFault
	cancel  context.CancelFunc
}

func (w *writeClientStream) Context() context.Context { return w.ctx }

type srvWriteStream struct {
	streamBase
	in   chan *bytestream.WriteRequest
	resp *bytestream.WriteResponse
}

func (s *srvWriteStream) Recv() (*bytestream.WriteRequest, error) {
	select {
	case m, ok := <-s.in:
		if !ok {
			return nil, io.EOF
		}
		return m, nil
	case <-s.Ctx.Done():
		return nil, status.FromContextError(s.Ctx.Err()).Err()
	}
}

func (s *srvWriteStream) SendAndClose(r *bytestream.WriteResponse) error {
	s.resp = &bytestream.WriteResponse{CommittedSize: r.CommittedSize}
	return nil
}

func (w *writeClientStream) start(first *bytestream.WriteRequest) {
	w.started = true
	w.c.park(w.method, stripUploadID(first.GetResourceName()))
	w.fault = w.c.take("PUT")
	if w.fault != nil {
		w.c.S.Fault("backend.b2.Write." + w.fault.Kind)
	}
	sctx, cancel := context.WithCancel(w.ctx)
	w.cancel = cancel
	srv := &srvWriteStream{streamBase: streamBase{Ctx: sctx}, in: w.reqs}
	go func() {
		defer cancel()
		var err error
		if w.c.Down || (w.fault != nil && w.fault.Kind == "err") {
			err = errUnavailable
			// drain what the client sends
			go func() {
				for range w.reqs {
				}
			}()
		} else {
			err = w.c.B.GRPC.Write(srv)
		}
		if err != nil {
			if _, ok := status.FromError(err); !ok {
				err = status.Error(codes.Unknown, err.Error())
			}
		}
		if err == nil && w.fault != nil && w.fault.Kind == "lost" {
			err = errUnavailable
		}
		w.resp <- wsResult{resp: srv.resp, err: err}
	}()
}

func (w *writeClientStream) SendMsg(m any) error {
	req := clone(m.(*bytestream.WriteRequest))
	if !w.started {
		w.start(req)
	}
	select {
	case w.reqs <- req:
		return nil
	case r := <-w.resp:
		// the handler finished early (blob exists, or an error): grpc reports
		// io.EOF on Send and the status on the following RecvMsg
		w.resp <- r
		return io.EOF
	case <-w.ctx.Done():
		return status.FromContextError(w.ctx.Err()).Err()
	}
}

func (w *writeClientStream) CloseSend() error {
	if !w.closed {
		w.closed = true
		if !w.started {
			w.start(&bytestream.WriteRequest{})
		}
		close(w.reqs)
	}
	return nil
}

func (w *writeClientStream) RecvMsg(m any) error {
	select {
	case r := <-w.resp:
		if r.err != nil {
			return r.err
		}
		if r.resp == nil {
			return status.Error(codes.Internal, "simulated conn: handler returned no response")
		}
		m.(*bytestream.WriteResponse).CommittedSize = r.resp.CommittedSize
		return nil
	case <-w.ctx.Done():
		return status.FromContextError(w.ctx.Err()).Err()
	}
}

// NewGRPCProxy builds the real grpcproxy on top of the simulated connection.
func NewGRPCProxy(conn *SimConn, mode string, uploaders, queue int) cache.Proxy {
	clients := grpcproxy.NewGrpcClientsVerif(conn)
	return grpcproxy.New(clients, mode, discardLogger, discardLogger, uploaders, queue)
}

// stripUploadID removes the random upload id from a ByteStream write resource
// name ("uploads/<uuid>/blobs/..."): labels must not contain anything random.
func stripUploadID(n string) string {
	i := strings.Index(n, "uploads/")
	if i < 0 {
		return n
	}
	rest := n[i+len("uploads/"):]
	if j := strings.IndexByte(rest, '/'); j >= 0 {
		return n[:i] + "uploads/" + rest[j+1:]
	}
	return n
}
