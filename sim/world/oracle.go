package world

import (
	"bytes"
	"fmt"
	"os"
	"path/filepath"
	"regexp"
	"runtime"
	"sort"
	"strconv"
	"strings"

	"verifsim/fmtv2"
	"verifsim/sim"

	"github.com/buchgr/bazel-remote/v2/cache/disk"
)

func R4k(n int64) int64 { return (n + 4095) &^ 4095 }

// Obs is a snapshot of the index and the counters; taking it does not change
// recency.
type Obs struct {
	Index []disk.VerifIndexEntry // most recently used first
	Cnt   disk.VerifCountersT
}

func Observe(n *Node) Obs {
	return Obs{Index: disk.VerifIndex(n.Cache), Cnt: disk.VerifCounters(n.Cache)}
}

func (o Obs) Find(key string) *disk.VerifIndexEntry {
	for i := range o.Index {
		if o.Index[i].Key == key {
			return &o.Index[i]
		}
	}
	return nil
}

// Keys returns the keys in LRU order, least recently used first.
func (o Obs) KeysOldestFirst() []string {
	out := make([]string, len(o.Index))
	for i := range o.Index {
		out[len(o.Index)-1-i] = o.Index[i].Key
	}
	return out
}

// ExpectedRel computes, from the published layout, the path of an entry's
// file relative to the cache directory.
func ExpectedRel(e disk.VerifIndexEntry) string {
	i := strings.IndexByte(e.Key, '/')
	ks, hash := e.Key[:i], e.Key[i+1:]
	switch ks {
	case "cas":
		if e.Legacy {
			return fmt.Sprintf("cas.v2/%s/%s-%s.v1", hash[:2], hash, e.Random)
		}
		return fmt.Sprintf("cas.v2/%s/%s-%d-%s", hash[:2], hash, e.Size, e.Random)
	case "ac":
		return fmt.Sprintf("ac.v2/%s/%s-%s", hash[:2], hash, e.Random)
	default:
		return fmt.Sprintf("raw.v2/%s/%s-%s", hash[:2], hash, e.Random)
	}
}

// StepInvariants are evaluated at every scheduling point (nobody holds the
// cache mutex there).
func StepInvariants(s *sim.Sim, n *Node, clausePrefix string) {
	if n == nil || n.Cache == nil || s.Panicked {
		return
	}
	o := Observe(n)
	c := o.Cnt
	if c.CurrentSize > c.MaxSize {
		s.Violate("C03.cap", n.Gen, "accounted size %d exceeds max_size %d", c.CurrentSize, c.MaxSize)
	}
	var sumDisk, sumLogical int64
	seen := map[string]bool{}
	for _, e := range o.Index {
		sumDisk += R4k(e.SizeOnDisk)
		sumLogical += R4k(e.Size)
		if seen[e.Key] {
			s.Violate("C03.sum", n.Gen, "key %s listed twice in the index", e.Key)
		}
		seen[e.Key] = true
	}
	if c.CurrentSize != sumDisk+c.ReservedSize {
		s.Violate("C03.sum", n.Gen, "accounted size %d != entries %d + reserved %d (diff %d)", c.CurrentSize, sumDisk, c.ReservedSize, c.CurrentSize-sumDisk-c.ReservedSize)
	}
	if c.UncompressedSize != sumLogical {
		s.Violate("C03.sum", n.Gen, "logical total %d != sum over entries %d", c.UncompressedSize, sumLogical)
	}
	if c.Len != len(o.Index) {
		s.Violate("C03.sum", n.Gen, "lookup map has %d keys, list has %d entries", c.Len, len(o.Index))
	}
	if c.ReservedSize < 0 {
		s.Violate("C03.sum", n.Gen, "reserved size negative: %d", c.ReservedSize)
	}
	// C04 at every instant, one direction: the file an index entry points at
	// exists (entries are inserted after their file is complete and leave the
	// index before their file is unlinked). A violation may heal on the next
	// read of the key, so quiescence alone would often miss it.
	if len(o.Index) <= 24 {
		for _, e := range o.Index {
			if _, err := os.Stat(e.Path); err != nil && os.IsNotExist(err) {
				s.Violate("C04.missing-file", n.Gen+"step", "index entry %s points at %s which does not exist (at a scheduling point, nobody holds the cache mutex)", e.Key, NormPath(e.Path))
			}
		}
	}
}

var nameRe = regexp.MustCompile(`^(cas\.v2|ac\.v2|raw\.v2)/([0-9a-f]{2})/([0-9a-f]{64})(?:-([1-9][0-9]*))?-([0-9a-zA-Z]+)(\.v1)?$`)

// QuiescenceOpts relaxes parts of the oracle for scenarios where they do not
// apply.
type QuiescenceOpts struct {
	SkipContent bool            // do not decode file contents (crash images)
	InFlight    map[string]bool // keys that may be incomplete (in flight at a kill)
	Reads       func(key string, size int64) (want []byte, known bool)
}

// Quiescence is the oracle of C04 (+ C03 at rest, C20 for written files):
// no request in flight, pending deletions drained.
func Quiescence(s *sim.Sim, n *Node, opt QuiescenceOpts) {
	if n == nil || n.Cache == nil || s.Panicked {
		return
	}
	StepInvariants(s, n, "")
	o := Observe(n)
	if o.Cnt.ReservedSize != 0 {
		s.Violate("C03.reserved-zero", n.Gen, "reserved size %d with no request in flight", o.Cnt.ReservedSize)
	}
	if o.Cnt.QueuedEvictionsSize != 0 {
		s.Violate("C17.backlog-zero", n.Gen, "deletion backlog counter %d after deletions drained", o.Cnt.QueuedEvictionsSize)
	}
	total, reserved, numItems, uncompressed := n.Cache.Stats()
	if total != o.Cnt.CurrentSize || reserved != o.Cnt.ReservedSize || numItems != len(o.Index) || uncompressed != o.Cnt.UncompressedSize {
		s.Violate("C03.sum", n.Gen, "Stats() = (%d,%d,%d,%d) disagrees with the index (%d,%d,%d,%d)", total, reserved, numItems, uncompressed, o.Cnt.CurrentSize, o.Cnt.ReservedSize, len(o.Index), o.Cnt.UncompressedSize)
	}
	files := ListFiles(n.Dir)
	byRel := map[string]FileInfo{}
	var diskSum int64
	for _, f := range files {
		byRel[f.Rel] = f
		diskSum += R4k(f.Size)
		if !nameRe.MatchString(f.Rel) {
			s.Violate("C04.name-grammar", ksOf(f.Rel), "file name %s does not follow the v2 layout", f.Rel)
		}
	}
	want := map[string]disk.VerifIndexEntry{}
	for _, e := range o.Index {
		rel := ExpectedRel(e)
		want[rel] = e
		f, ok := byRel[rel]
		if !ok {
			s.Violate("C04.missing-file", ksOf(rel), "indexed entry %s has no file %s", e.Key, rel)
			continue
		}
		if f.Size != e.SizeOnDisk {
			s.Violate("C04.size", ksOf(rel), "file %s has %d bytes, index records %d", rel, f.Size, e.SizeOnDisk)
		}
		if !opt.SkipContent && !opt.InFlight[e.Key] {
			checkFileContent(s, n, rel, e)
		}
	}
	for _, f := range files {
		if _, ok := want[f.Rel]; !ok {
			s.Violate("C04.stray-file", ksOf(f.Rel), "file %s (%d bytes) is not an indexed entry", f.Rel, f.Size)
		}
	}
	if len(s.Violations) == 0 && diskSum != o.Cnt.CurrentSize {
		s.Violate("C03.disk", n.Gen, "accounted size %d != sum of files rounded to 4 KiB %d", o.Cnt.CurrentSize, diskSum)
	}
}

// checkFileContent judges completeness of a stored file with the independent
// format reader.
func checkFileContent(s *sim.Sim, n *Node, rel string, e disk.VerifIndexEntry) {
	data, err := os.ReadFile(filepath.Join(n.Dir, rel))
	if err != nil {
		return
	}
	hash := e.Key[strings.IndexByte(e.Key, '/')+1:]
	site := ksOf(rel)
	switch {
	case strings.HasPrefix(e.Key, "cas/") && !e.Legacy:
		content, h, err := fmtv2.Decode(data)
		if err != nil {
			s.Violate("C04.incomplete", site, "cas.v2 file does not parse with the independent reader: %v", err)
			s.Violate("C20.writes-conform", site, "cas.v2 file does not parse with the independent reader: %v", err)
			return
		}
		if h.LogicalSize != e.Size {
			s.Violate("C04.incomplete", site, "header logical size %d, index says %d", h.LogicalSize, e.Size)
		}
		if HashOf(content) != hash {
			s.Violate("C04.incomplete", site, "stored content does not hash to its key")
		}
	case strings.HasPrefix(e.Key, "cas/"):
		if int64(len(data)) != e.Size {
			s.Violate("C04.incomplete", site, "raw CAS file has %d bytes, entry size %d", len(data), e.Size)
		} else if HashOf(data) != hash {
			s.Violate("C04.incomplete", site, "stored content does not hash to its key")
		}
	default:
		if int64(len(data)) != e.Size {
			s.Violate("C04.incomplete", site, "file has %d bytes, entry size %d", len(data), e.Size)
		}
	}
}

// ksOf returns the key-space directory of a relative path (violation sites
// are kept generic so that one defect is one finding).
func ksOf(rel string) string {
	if i := strings.IndexByte(rel, '/'); i >= 0 {
		return rel[:i]
	}
	return rel
}

// OpenFDs lists descriptors of this process that point below dir.
func OpenFDs(dir string) []string {
	ents, err := os.ReadDir("/proc/self/fd")
	if err != nil {
		return nil
	}
	var out []string
	for _, e := range ents {
		t, err := os.Readlink("/proc/self/fd/" + e.Name())
		if err != nil {
			continue
		}
		if strings.HasPrefix(t, dir+"/") {
			out = append(out, NormPath(strings.TrimSuffix(t, " (deleted)")))
		}
	}
	sort.Strings(out)
	return out
}

// Goroutines returns a normalised description of every goroutine in the
// process that has a frame of the code under test, excluding the permanent
// background goroutines of a cache instance.
func LeakedGoroutines() []string {
	buf := make([]byte, 8<<20)
	n := runtime.Stack(buf, true)
	var out []string
	for _, g := range bytes.Split(buf[:n], []byte("\n\n")) {
		st := string(g)
		if !strings.Contains(st, "buchgr/bazel-remote/v2/") {
			continue
		}
		if cs := sim.Cur(); cs != nil && strings.HasPrefix(st, "goroutine ") {
			rest := st[len("goroutine "):]
			if sp := strings.IndexByte(rest, ' '); sp > 0 {
				if id, err := strconv.ParseInt(rest[:sp], 10, 64); err == nil && cs.Preexisting(id) {
					continue // leftover of an earlier run in this worker process
				}
			}
		}
		if strings.Contains(st, "performQueuedEvictions") || strings.Contains(st, "containsWorker") ||
			strings.Contains(st, "backendproxy.StartUploaders") {
			continue
		}
		// harness goroutines (tasks) legitimately have such frames while they run;
		// callers invoke this only when every task has finished.
		lines := strings.Split(st, "\n")
		var frames []string
		for _, l := range lines[1:] {
			if strings.HasPrefix(l, "\t") || strings.HasPrefix(l, "created by") {
				if strings.HasPrefix(l, "created by") {
					f := l
					if i := strings.Index(f, " in goroutine"); i >= 0 {
						f = f[:i]
					}
					frames = append(frames, f)
				}
				continue
			}
			if i := strings.LastIndexByte(l, '('); i > 0 {
				l = l[:i]
			}
			if j := strings.LastIndexByte(l, '/'); j >= 0 {
				l = l[j+1:]
			}
			frames = append(frames, l)
			if len(frames) >= 6 {
				break
			}
		}
		state := lines[0]
		if i := strings.IndexByte(state, '['); i >= 0 {
			state = state[i:]
		}
		if i := strings.IndexAny(state, ",]"); i >= 0 {
			state = state[:i] + "]"
		}
		out = append(out, state+" "+strings.Join(frames, " < "))
	}
	sort.Strings(out)
	return out
}
