package world

import (
	"bytes"
	"context"
	"errors"
	"io"
	"net/http"
	"sort"

	"verifsim/sim"

	"google.golang.org/genproto/googleapis/bytestream"
	"google.golang.org/grpc/metadata"

	pb "github.com/buchgr/bazel-remote/v2/genproto/build/bazel/remote/execution/v2"
)

var ErrInjected = errors.New("injected: client aborted the stream")
var errSimClosed = errors.New("simulation closed")

// ParkReader delivers data in pieces; before each piece after the first it
// parks, so the scheduler decides when upload bytes arrive. AbortAt >= 0 makes
// the read fail once that many bytes were delivered.
type ParkReader struct {
	S       *sim.Sim
	Data    []byte
	Cuts    []int // sorted offsets at which the reader parks (0 < cut < len)
	AbortAt int   // -1: none
	// buggify (legal io.Reader behaviour that real bodies show):
	EOFWithData bool // the final bytes are returned together with io.EOF
	MaxRead     int  // >0: never return more than that many bytes per call
	pos         int
	ci          int
	closed      bool
	Closes      int
}

func NewParkReader(s *sim.Sim, data []byte, cuts []int, abortAt int) *ParkReader {
	c := append([]int(nil), cuts...)
	sort.Ints(c)
	var cc []int
	for _, x := range c {
		if x > 0 && x < len(data) && (len(cc) == 0 || cc[len(cc)-1] != x) {
			cc = append(cc, x)
		}
	}
	return &ParkReader{S: s, Data: data, Cuts: cc, AbortAt: abortAt, EOFWithData: s.Knobs["rd.eof-with-data"] == 1, MaxRead: s.Knobs["rd.max-read"]}
}

func (r *ParkReader) Read(p []byte) (int, error) {
	if r.S.Closed() {
		return 0, errSimClosed
	}
	if len(p) == 0 {
		return 0, nil
	}
	if r.AbortAt >= 0 && r.pos >= r.AbortAt {
		r.S.Fault("upload.abort")
		return 0, ErrInjected
	}
	if r.pos >= len(r.Data) {
		return 0, io.EOF
	}
	if r.ci < len(r.Cuts) && r.pos == r.Cuts[r.ci] {
		r.ci++
		r.S.Park("rd")
		if r.S.Closed() {
			return 0, errSimClosed
		}
	}
	end := len(r.Data)
	if r.ci < len(r.Cuts) && r.Cuts[r.ci] < end {
		end = r.Cuts[r.ci]
	}
	if r.AbortAt >= 0 && r.AbortAt < end && r.AbortAt > r.pos {
		end = r.AbortAt
	}
	if r.MaxRead > 0 && end-r.pos > r.MaxRead {
		end = r.pos + r.MaxRead
	}
	n := copy(p, r.Data[r.pos:end])
	r.pos += n
	if r.EOFWithData && r.pos >= len(r.Data) && r.AbortAt < 0 {
		return n, io.EOF
	}
	return n, nil
}

func (r *ParkReader) Close() error {
	r.Closes++
	r.closed = true
	return nil
}

// Cuts draws piece boundaries for a payload of n bytes: 0..3 cuts biased to
// block and chunk edges. The all-zero choice is "no cut".
func DrawCuts(r sim.Rand, n int) []int {
	if n <= 1 {
		return nil
	}
	k := r.Weighted(5, 3, 2, 1)
	var cuts []int
	for i := 0; i < k; i++ {
		var c int
		switch r.Intn(4) {
		case 0:
			c = 1 + r.Intn(n-1)
		case 1:
			c = 4096 * (1 + r.Intn(1+n/4096))
		case 2:
			c = (1 << 20) * (1 + r.Intn(1+n/(1<<20)))
		default:
			c = n - 1
		}
		if c > 0 && c < n {
			cuts = append(cuts, c)
		}
	}
	return cuts
}

// RespWriter is the harness http.ResponseWriter.
type RespWriter struct {
	S      *sim.Sim
	H      http.Header
	Status int
	Body   bytes.Buffer
	FailAt int // -1: none; Write fails once this many body bytes were accepted
	ParkAt int // -1: none; park once when this many bytes were accepted
	parked bool
}

func NewRespWriter(s *sim.Sim) *RespWriter {
	return &RespWriter{S: s, H: http.Header{}, FailAt: -1, ParkAt: -1}
}

func (w *RespWriter) Header() http.Header { return w.H }

func (w *RespWriter) WriteHeader(code int) {
	if w.Status == 0 {
		w.Status = code
	}
}

func (w *RespWriter) Write(p []byte) (int, error) {
	if w.Status == 0 {
		w.Status = 200
	}
	if w.ParkAt >= 0 && !w.parked && w.Body.Len()+len(p) > w.ParkAt {
		w.parked = true
		w.S.Park("wr")
	}
	if w.FailAt >= 0 && w.Body.Len()+len(p) > w.FailAt {
		n := w.FailAt - w.Body.Len()
		if n < 0 {
			n = 0
		}
		w.Body.Write(p[:n])
		w.S.Fault("download.abort")
		return n, ErrInjected
	}
	return w.Body.Write(p)
}

// --- gRPC server-stream stubs -------------------------------------------------

type streamBase struct {
	Ctx context.Context
}

func (b *streamBase) SetHeader(metadata.MD) error  { return nil }
func (b *streamBase) SendHeader(metadata.MD) error { return nil }
func (b *streamBase) SetTrailer(metadata.MD)       {}
func (b *streamBase) Context() context.Context     { return b.Ctx }
func (b *streamBase) SendMsg(m any) error {
	return errors.New("SendMsg not supported by the harness stream")
}
func (b *streamBase) RecvMsg(m any) error {
	return errors.New("RecvMsg not supported by the harness stream")
}

// ReadStream implements bytestream.ByteStream_ReadServer.
type ReadStream struct {
	streamBase
	S      *sim.Sim
	Data   bytes.Buffer
	Sends  int
	FailAt int // -1 none: Send fails when this many bytes were already delivered
	ParkAt int // park once before the send that crosses this many bytes
	parked bool
}

func (r *ReadStream) Send(m *bytestream.ReadResponse) error {
	if r.ParkAt >= 0 && !r.parked && r.Data.Len()+len(m.Data) > r.ParkAt {
		r.parked = true
		r.S.Park("send")
	}
	if r.FailAt >= 0 && r.Data.Len() >= r.FailAt {
		r.S.Fault("download.abort")
		return ErrInjected
	}
	r.Sends++
	r.Data.Write(m.Data)
	return nil
}

// WriteMsg is one scripted client message of a ByteStream.Write call.
type WriteMsg struct {
	Req  *bytestream.WriteRequest
	Park bool // park before delivering this message
}

// WriteStream implements bytestream.ByteStream_WriteServer.
type WriteStream struct {
	streamBase
	S       *sim.Sim
	Msgs    []WriteMsg
	EndErr  error // returned after the last message instead of io.EOF
	Cancel  context.CancelFunc
	i       int
	Resp    *bytestream.WriteResponse
	Closed  bool
	Recvs   int
	SendErr error
}

func (w *WriteStream) Recv() (*bytestream.WriteRequest, error) {
	if w.S.Closed() {
		return nil, errSimClosed
	}
	if w.i >= len(w.Msgs) {
		w.S.Park("recv-end")
		if w.EndErr != nil {
			w.S.Fault("upload.abort")
			if w.Cancel != nil {
				w.Cancel()
			}
			return nil, w.EndErr
		}
		return nil, io.EOF
	}
	m := w.Msgs[w.i]
	w.i++
	if m.Park {
		w.S.Park("recv")
		if w.S.Closed() {
			return nil, errSimClosed
		}
	}
	w.Recvs++
	return m.Req, nil
}

func (w *WriteStream) SendAndClose(r *bytestream.WriteResponse) error {
	if w.SendErr != nil {
		return w.SendErr
	}
	w.Resp = &bytestream.WriteResponse{CommittedSize: r.CommittedSize}
	w.Closed = true
	return nil
}

// TreeStream implements pb.ContentAddressableStorage_GetTreeServer.
type TreeStream struct {
	streamBase
	Resps []*pb.GetTreeResponse
}

func (t *TreeStream) Send(r *pb.GetTreeResponse) error {
	t.Resps = append(t.Resps, r)
	return nil
}
