package world

import (
	"bytes"
	"context"
	"encoding/binary"
	"errors"
	"fmt"
	"io"
	"net/http"
	"net/url"
	"sort"
	"strconv"
	"strings"
	"sync"

	"verifsim/fmtv2"
	"verifsim/sim"

	"github.com/buchgr/bazel-remote/v2/cache"
	"github.com/buchgr/bazel-remote/v2/cache/httpproxy"
)

// Store is the simulated backend: an object store (name -> bytes) that
// records every request and injects planned faults. It is reached either
// through a simulated http.RoundTripper driving the real httpproxy (b1) or
// directly through a harness cache.Proxy (b0).
type Store struct {
	S       *sim.Sim
	mu      sync.Mutex
	Objects map[string][]byte
	Puts    map[string]int
	Log     []string
	armed   []*BFault
	bodies  []*trackedBody
	seq     map[string]int
	Down    bool // every request fails before a response
	GetReqs map[string]int
	V2      bool // objects under cas.v2/ are cas.v2 blobs
	// BodyParks: sorted offsets at which every b0 GET body pauses once, so
	// that other requests - or a kill - can land inside a fetch.
	BodyParks []int
}

// BFault is one planned backend fault; it applies to the next request of the
// given method.
type BFault struct {
	Method string // GET | HEAD | PUT
	Kind   string
	At     int // byte offset for stream faults
	Fired  bool
}

func NewStore(s *sim.Sim, v2 bool) *Store {
	return &Store{S: s, Objects: map[string][]byte{}, Puts: map[string]int{}, seq: map[string]int{}, GetReqs: map[string]int{}, V2: v2}
}

func (st *Store) Arm(f *BFault) {
	st.mu.Lock()
	st.armed = append(st.armed, f)
	st.mu.Unlock()
}

// Disarm drops faults that did not fire (the request they were meant for was
// never made).
func (st *Store) Disarm() {
	st.mu.Lock()
	st.armed = nil
	st.mu.Unlock()
}

func (st *Store) take(method string) *BFault {
	st.mu.Lock()
	defer st.mu.Unlock()
	for i, f := range st.armed {
		if f.Method == method {
			st.armed = append(st.armed[:i], st.armed[i+1:]...)
			f.Fired = true
			return f
		}
	}
	return nil
}

func (st *Store) logf(format string, a ...any) {
	st.mu.Lock()
	st.Log = append(st.Log, fmt.Sprintf(format, a...))
	st.mu.Unlock()
}

// ObjectName is the harness's restatement of the backend naming function for
// the HTTP backend: (kind, hash, mode) -> name.
func ObjectName(kind cache.EntryKind, hash string, v2 bool) string {
	if kind == cache.CAS && v2 {
		return "cas.v2/" + hash
	}
	return kind.String() + "/" + hash
}

type trackedBody struct {
	name    string
	r       io.Reader
	cutAt   int // -1 none
	pos     int
	eof     bool
	errored bool
	closed  bool
}

func (b *trackedBody) Read(p []byte) (int, error) {
	if b.closed {
		return 0, errors.New("read on closed body")
	}
	if b.cutAt >= 0 {
		if b.pos >= b.cutAt {
			b.errored = true
			return 0, io.ErrUnexpectedEOF
		}
		if len(p) > b.cutAt-b.pos {
			p = p[:b.cutAt-b.pos]
		}
	}
	n, err := b.r.Read(p)
	b.pos += n
	if err == io.EOF {
		b.eof = true
	}
	return n, err
}

func (b *trackedBody) Close() error {
	b.closed = true
	return nil
}

// LeakedBodies lists response bodies that were neither closed nor read to the
// end: with net/http each of them pins a backend connection.
func (st *Store) LeakedBodies() []string {
	st.mu.Lock()
	defer st.mu.Unlock()
	var out []string
	for _, b := range st.bodies {
		if !b.closed && !b.eof && !b.errored {
			out = append(out, b.name)
		}
	}
	sort.Strings(out)
	return out
}

// RoundTrip implements http.RoundTripper with net/http's client-visible
// semantics (ContentLength, io.ErrUnexpectedEOF on a short body, request body
// always closed).
func (st *Store) RoundTrip(req *http.Request) (*http.Response, error) {
	name := strings.TrimPrefix(req.URL.Path, "/")
	st.mu.Lock()
	k := req.Method + " " + name
	ord := st.seq[k]
	st.seq[k] = ord + 1
	st.mu.Unlock()
	label := fmt.Sprintf("be:%s:%s#%d", req.Method, shortName(name), ord)
	st.S.ParkAs(label, "rt")
	if req.Body != nil {
		defer req.Body.Close()
	}
	if err := req.Context().Err(); err != nil {
		st.logf("%s %s -> cancelled", req.Method, shortName(name))
		return nil, err
	}
	f := st.take(req.Method)
	kind := ""
	if f != nil {
		kind = f.Kind
		st.S.Fault("backend." + req.Method + "." + kind)
	}
	if st.Down {
		kind = "err"
	}
	mk := func(status int, body []byte, cl int64, cut int) *http.Response {
		h := http.Header{}
		if cl >= 0 {
			h.Set("Content-Length", strconv.FormatInt(cl, 10))
		}
		var rc io.ReadCloser = http.NoBody
		if req.Method != http.MethodHead && (len(body) > 0 || cut >= 0) {
			tb := &trackedBody{name: fmt.Sprintf("%s %s #%d (%d)", req.Method, shortName(name), ord, status), r: bytes.NewReader(body), cutAt: cut}
			st.mu.Lock()
			st.bodies = append(st.bodies, tb)
			st.mu.Unlock()
			rc = tb
		}
		return &http.Response{StatusCode: status, Status: strconv.Itoa(status) + " " + http.StatusText(status), Header: h, ContentLength: cl, Body: rc, Request: req, Proto: "HTTP/1.1", ProtoMajor: 1, ProtoMinor: 1}
	}
	if kind == "err" {
		st.logf("%s %s -> transport error", req.Method, shortName(name))
		return nil, errors.New("simulated transport error: connection refused")
	}
	switch req.Method {
	case http.MethodPut:
		data, err := io.ReadAll(req.Body)
		if err != nil {
			st.logf("PUT %s -> request body error %v", shortName(name), err)
			return nil, err
		}
		if req.ContentLength >= 0 && int64(len(data)) != req.ContentLength {
			// net/http refuses to send a body that disagrees with ContentLength
			st.logf("PUT %s -> body %d != ContentLength %d", shortName(name), len(data), req.ContentLength)
			return nil, fmt.Errorf("http: ContentLength=%d with Body length %d", req.ContentLength, len(data))
		}
		switch kind {
		case "500":
			st.logf("PUT %s -> 500", shortName(name))
			return mk(500, []byte("backend exploded"), 16, -1), nil
		case "lost":
			st.logf("PUT %s -> lost (error after the body was sent)", shortName(name))
			return nil, errors.New("simulated transport error: connection reset by peer")
		}
		st.mu.Lock()
		st.Objects[name] = data
		st.Puts[name]++
		st.mu.Unlock()
		st.logf("PUT %s (%d bytes) -> 200", shortName(name), len(data))
		return mk(200, nil, 0, -1), nil
	case http.MethodHead, http.MethodGet:
		st.mu.Lock()
		obj, ok := st.Objects[name]
		if req.Method == http.MethodGet {
			st.GetReqs[name]++
		}
		st.mu.Unlock()
		switch kind {
		case "404":
			ok = false
		case "404body":
			st.logf("%s %s -> 404 with body", req.Method, shortName(name))
			return mk(404, []byte("Not found\n"), 10, -1), nil
		case "500":
			st.logf("%s %s -> 500", req.Method, shortName(name))
			return mk(500, []byte("backend exploded"), 16, -1), nil
		case "500big":
			b := bytes.Repeat([]byte("error text "), 400)
			st.logf("%s %s -> 500 with %d byte body", req.Method, shortName(name), len(b))
			return mk(500, b, int64(len(b)), -1), nil
		}
		if !ok {
			st.logf("%s %s -> 404", req.Method, shortName(name))
			return mk(404, nil, 0, -1), nil
		}
		cl := int64(len(obj))
		cut := -1
		switch kind {
		case "cut":
			cut = f.At
			if cut >= len(obj) {
				cut = len(obj) - 1
			}
			if cut < 0 {
				cut = 0
			}
		case "nocl":
			cl = -1
		}
		st.logf("%s %s -> 200 (%d bytes, fault %q at %d)", req.Method, shortName(name), len(obj), kind, cut)
		return mk(200, obj, cl, cut), nil
	}
	return mk(405, nil, 0, -1), nil
}

func shortName(n string) string {
	i := strings.LastIndexByte(n, '/')
	if i >= 0 && len(n) > i+11 {
		return n[:i+11]
	}
	return n
}

// NewHTTPProxy builds the real httpproxy on top of the simulated transport.
func NewHTTPProxy(st *Store, mode string, uploaders, queue int) (cache.Proxy, error) {
	u, _ := url.Parse("http://backend.example/")
	return httpproxy.New(u, mode, &http.Client{Transport: st}, discardLogger, discardLogger, uploaders, queue)
}

// ------------------------------------------------------------------ b0

// DirectProxy is a harness cache.Proxy straight on the interface, for faults
// no transport would produce but the interface permits.
type DirectProxy struct {
	St *Store
}

type cutReader struct {
	r      *bytes.Reader
	left   int // bytes before the fault (-1: none)
	err    error
	closed *bool
	s      *sim.Sim
	parks  []int // body offsets at which the stream pauses once (scheduling points inside a fetch)
	pos    int
}

func (c *cutReader) Read(p []byte) (int, error) {
	if c.left == 0 {
		return 0, c.err
	}
	if c.left > 0 && len(p) > c.left {
		p = p[:c.left]
	}
	for len(c.parks) > 0 && c.parks[0] < c.pos {
		c.parks = c.parks[1:]
	}
	if len(c.parks) > 0 && c.s != nil {
		if c.parks[0] == c.pos {
			c.parks = c.parks[1:]
			c.s.Park("be-body")
		} else if len(p) > c.parks[0]-c.pos {
			p = p[:c.parks[0]-c.pos]
		}
	}
	n, err := c.r.Read(p)
	c.pos += n
	if c.left > 0 {
		c.left -= n
	}
	return n, err
}
func (c *cutReader) Close() error { *c.closed = true; return nil }

func (p *DirectProxy) Put(ctx context.Context, kind cache.EntryKind, hash string, logicalSize int64, sizeOnDisk int64, rc io.ReadCloser) {
	st := p.St
	name := ObjectName(kind, hash, st.V2)
	data, err := io.ReadAll(rc)
	_ = rc.Close()
	if err != nil {
		st.logf("PUT %s -> read error %v", shortName(name), err)
		return
	}
	st.mu.Lock()
	st.Objects[name] = data
	st.Puts[name]++
	st.mu.Unlock()
	st.logf("PUT %s (%d bytes, logical %d, on disk %d)", shortName(name), len(data), logicalSize, sizeOnDisk)
}

// Has reports whether the backend holds an object.
func (st *Store) Has(name string) bool {
	st.mu.Lock()
	defer st.mu.Unlock()
	_, ok := st.Objects[name]
	return ok
}

// logicalSizeOf returns the logical size a well-behaved proxy announces.
func (st *Store) logicalSizeOf(kind cache.EntryKind, obj []byte) int64 {
	if kind == cache.CAS && st.V2 && len(obj) >= 16 {
		return int64(binary.LittleEndian.Uint64(obj[8:16]))
	}
	return int64(len(obj))
}

func (p *DirectProxy) Get(ctx context.Context, kind cache.EntryKind, hash string, size int64) (io.ReadCloser, int64, error) {
	st := p.St
	name := ObjectName(kind, hash, st.V2)
	st.S.ParkAs("be:GET:"+shortName(name), "proxy")
	st.mu.Lock()
	obj, ok := st.Objects[name]
	st.GetReqs[name]++
	st.mu.Unlock()
	f := st.take("GET")
	kindF := ""
	if f != nil {
		kindF = f.Kind
		st.S.Fault("backend.b0.GET." + kindF)
	}
	if st.Down || kindF == "err" {
		st.logf("GET %s -> error", shortName(name))
		return nil, -1, errors.New("simulated backend error")
	}
	if !ok || kindF == "404" {
		st.logf("GET %s -> miss", shortName(name))
		return nil, -1, nil
	}
	n := st.logicalSizeOf(kind, obj)
	closed := new(bool)
	parks := append([]int(nil), st.BodyParks...)
	if len(parks) > 0 && kind == cache.CAS && st.V2 {
		// also pause where a chunk ends: a stream cut there decodes cleanly
		if h, err := fmtv2.Parse(obj); err == nil {
			for _, o := range h.Offsets {
				parks = append(parks, int(o))
			}
			sort.Ints(parks)
		}
	}
	rd := &cutReader{r: bytes.NewReader(obj), left: -1, closed: closed, s: st.S, parks: parks}
	tb := &trackedBody{name: "b0 GET " + shortName(name)}
	_ = tb
	switch kindF {
	case "short": // the stream ends cleanly early
		at := f.At
		if at >= len(obj) {
			at = len(obj) - 1
		}
		rd.left, rd.err = at, io.EOF
	case "cut": // the stream fails
		at := f.At
		if at >= len(obj) {
			at = len(obj) - 1
		}
		rd.left, rd.err = at, io.ErrUnexpectedEOF
	case "size-unknown":
		n = -1
	case "size+1":
		n++
	case "size-1":
		n--
	}
	st.mu.Lock()
	st.bodies = append(st.bodies, &trackedBody{name: "b0 GET " + shortName(name)})
	tbx := st.bodies[len(st.bodies)-1]
	st.mu.Unlock()
	st.logf("GET %s -> hit (%d bytes, announced %d, fault %q)", shortName(name), len(obj), n, kindF)
	return &b0Body{cutReader: rd, tb: tbx}, n, nil
}

type b0Body struct {
	*cutReader
	tb *trackedBody
}

func (b *b0Body) Read(p []byte) (int, error) {
	n, err := b.cutReader.Read(p)
	if err == io.EOF {
		b.tb.eof = true
	} else if err != nil {
		b.tb.errored = true
	}
	return n, err
}
func (b *b0Body) Close() error { b.tb.closed = true; return nil }

func (p *DirectProxy) Contains(ctx context.Context, kind cache.EntryKind, hash string, size int64) (bool, int64) {
	st := p.St
	name := ObjectName(kind, hash, st.V2)
	// pool workers are labelled by work item, not by worker
	st.mu.Lock()
	k := "HEAD " + name
	ord := st.seq[k]
	st.seq[k] = ord + 1
	st.mu.Unlock()
	st.S.ParkAs(fmt.Sprintf("be:HEAD:%s#%d", shortName(name), ord), "proxy")
	if err := ctx.Err(); err != nil {
		return false, -1
	}
	st.mu.Lock()
	obj, ok := st.Objects[name]
	st.mu.Unlock()
	f := st.take("HEAD")
	kindF := ""
	if f != nil {
		kindF = f.Kind
		st.S.Fault("backend.b0.HEAD." + kindF)
	}
	if st.Down || kindF == "err" || kindF == "404" || !ok {
		st.logf("HEAD %s -> no", shortName(name))
		return false, -1
	}
	n := st.logicalSizeOf(kind, obj)
	if kindF == "size-unknown" {
		n = -1
	}
	st.logf("HEAD %s -> yes (%d)", shortName(name), n)
	return true, n
}
