// instrument <repo> <shimdir> <outdir>: development helper around package instr.
package main

import (
	"fmt"
	"os"

	"verifsim/instr"
)

func main() {
	p, st, err := instr.Generate(os.Args[1], os.Args[2], os.Args[3])
	if err != nil {
		fmt.Fprintln(os.Stderr, err)
		os.Exit(2)
	}
	fmt.Println(p, st.Summary())
}
