package main

import (
	"bufio"
	"encoding/json"
	"fmt"
	"os"
	"path"
	"path/filepath"
	"sort"
	"strings"
	"time"

	"verifsim/rt"
)

type failing struct {
	res rt.Result
	v   rt.Violation
}

type agg struct {
	runs, inconclusive, harnessErr int
	steps, preempts, ops, ambig    int64
	simMs, wallMs                  float64
	faults, probes                 map[string]int
	cells                          map[string]bool
	traces                         map[string]bool // distinct non-trivial
	states                         map[string]bool
	perScen                        map[string]int
	otherClauses                   map[string]int
	samples                        []any
	owned                          map[string]*failing // key clause|site
	ownedHits                      map[string]int
	harnessMsgs                    []string
	trouble                        []string
	suspects                       []rt.Params
	suspectLogs                    []string
	seedLo, seedHi                 uint64
	extra                          map[string]int64
}

func newAgg() *agg {
	return &agg{faults: map[string]int{}, probes: map[string]int{}, cells: map[string]bool{}, traces: map[string]bool{},
		states: map[string]bool{}, perScen: map[string]int{}, otherClauses: map[string]int{}, owned: map[string]*failing{}, ownedHits: map[string]int{}, extra: map[string]int64{}}
}

func (a *agg) add(p *propSpec, r rt.Result) {
	a.runs++
	a.perScen[r.Params.Scenario]++
	if a.seedLo == 0 || r.Params.Seed < a.seedLo {
		a.seedLo = r.Params.Seed
	}
	if r.Params.Seed > a.seedHi {
		a.seedHi = r.Params.Seed
	}
	if r.Harness != "" {
		a.harnessErr++
		if len(a.harnessMsgs) < 3 {
			a.harnessMsgs = append(a.harnessMsgs, fmt.Sprintf("seed %d: %s", r.Params.Seed, trimLines(r.Harness, 30)))
		}
		return
	}
	if r.Aborted != "" {
		a.inconclusive++
	}
	a.steps += int64(r.Steps)
	a.preempts += int64(r.Preempts)
	a.ops += int64(r.Ops)
	a.ambig += int64(r.Ambig)
	a.simMs += r.SimMs
	a.wallMs += r.WallMs
	nf := 0
	for k, v := range r.Faults {
		a.faults[k] += v
		nf += v
	}
	for k, v := range r.Probes {
		a.probes[k] += v
	}
	for _, c := range r.Cells {
		a.cells[c] = true
	}
	for k, v := range r.Extra {
		a.extra[k] += v
	}
	if r.Preempts > 0 || nf > 0 {
		a.traces[r.Params.Scenario+":"+r.TraceHash] = true
	}
	if r.StateHash != "" {
		a.states[r.StateHash] = true
	}
	if len(a.samples) < 3 && r.Ops > 0 {
		a.samples = append(a.samples, map[string]any{
			"scenario": r.Params.Scenario, "seed": r.Params.Seed, "opt": r.Params.Opt,
			"plan": head(r.PlanLog, 40), "schedule_and_outcomes": head(r.TraceLog, 60),
			"steps": r.Steps, "preemptions": r.Preempts, "faults": r.Faults,
		})
	}
	seenInRun := map[string]bool{}
	for _, v := range r.Violations {
		if !p.owns(v.Clause) {
			a.otherClauses[v.Clause]++
			continue
		}
		k := v.Clause + "|" + v.Site
		if !seenInRun[k] {
			seenInRun[k] = true
			a.ownedHits[k]++ // runs, not violations
		}
		if f, ok := a.owned[k]; !ok || r.Steps < f.res.Steps {
			a.owned[k] = &failing{res: r, v: v}
		}
	}
}

func head(l []string, n int) []string {
	if len(l) > n {
		return append(append([]string(nil), l[:n]...), fmt.Sprintf("... (%d more)", len(l)-n))
	}
	return l
}

// ---------------------------------------------------------------- known findings

type finding struct {
	prop, clause, site, text string
}

func loadFindings() []finding {
	f, err := os.Open(filepath.Join(verifDir, "KNOWN_FINDINGS.txt"))
	if err != nil {
		return nil
	}
	defer f.Close()
	var out []finding
	sc := bufio.NewScanner(f)
	for sc.Scan() {
		l := strings.TrimSpace(sc.Text())
		if !strings.HasPrefix(l, "finding:") {
			continue // "fixed:" lines and comments suppress nothing
		}
		fd := finding{}
		rest := strings.TrimSpace(strings.TrimPrefix(l, "finding:"))
		if i := strings.Index(rest, " — "); i >= 0 {
			fd.text = rest[i+len(" — "):]
			rest = rest[:i]
		}
		for _, tok := range strings.Fields(rest) {
			k, v, ok := strings.Cut(tok, "=")
			if !ok {
				continue
			}
			switch k {
			case "property":
				fd.prop = v
			case "clause":
				fd.clause = v
			case "site":
				fd.site = v
			}
		}
		if fd.prop != "" && fd.clause != "" {
			out = append(out, fd)
		}
	}
	return out
}

func (f finding) matches(prop string, v rt.Violation) bool {
	if f.prop != prop || f.clause != v.Clause {
		return false
	}
	if f.site == "" || f.site == "*" {
		return true
	}
	site := strings.ReplaceAll(v.Site, " ", "_")
	ok, err := path.Match(f.site, site)
	return err == nil && ok
}

// ---------------------------------------------------------------- the check

func runCheck(e *env, p *propSpec, tier string) int {
	budget := p.QuickS
	if tier == "thorough" {
		budget = p.ThorS
	}
	budget = getenvInt("VERIF_BUDGET_S", budget)
	maxRuns := getenvInt("VERIF_MAX_RUNS", 0)
	fmt.Printf("vcheck: property=%s tier=%s seed=%d budget=%ds workers=%d scenarios=%s instrumentation: %s\n", p.ID, tier, e.seed, budget, e.workers, p.scenNames(), e.instr)
	deadline := time.Now().Add(time.Duration(budget) * time.Second)
	a := newAgg()
	known := loadFindings()
	var requeue [][]rt.Params
	idx := uint64(0)
	batchNo := 0
	stop := false
	if only := os.Getenv("VERIF_ONLY"); only != "" { // exploration aid, never set by registered commands: "scen" or "scen:k=v,k=v"
		name, opts, _ := strings.Cut(only, ":")
		sp := scenSpec{Name: name, Weight: 1}
		for _, s := range p.Scens {
			if s.Name == name {
				sp.Batch = s.Batch
			}
		}
		if opts != "" {
			sp.Opt = map[string]string{}
			for _, kv := range strings.Split(opts, ",") {
				k, v, _ := strings.Cut(kv, "=")
				sp.Opt[k] = v
			}
		}
		pc := *p
		pc.Scens = []scenSpec{sp}
		p = &pc
	}
	totalW := 0
	for _, s := range p.Scens {
		totalW += s.Weight
	}
	next := func() []rt.Params {
		if stop {
			return nil
		}
		if len(requeue) > 0 {
			j := requeue[0]
			requeue = requeue[1:]
			return j
		}
		if stop || time.Now().After(deadline) || (maxRuns > 0 && int(idx) >= maxRuns) {
			return nil
		}
		// weighted round robin over the scenario specs
		slot := batchNo % totalW
		batchNo++
		var spec scenSpec
		for _, s := range p.Scens {
			if slot < s.Weight {
				spec = s
				break
			}
			slot -= s.Weight
		}
		n := spec.Batch
		if n == 0 {
			n = 30
		}
		jobs := make([]rt.Params, 0, n)
		for i := 0; i < n; i++ {
			idx++
			opt := spec.Opt
			if tier == "quick" && len(p.QuickOpt) > 0 && len(spec.Opt) > 0 {
				opt = map[string]string{}
				for k, v := range spec.Opt {
					opt[k] = v
				}
				for k, v := range p.QuickOpt {
					opt[k] = v
				}
			}
			jobs = append(jobs, rt.Params{Scenario: spec.Name, Opt: opt, Seed: e.seed*1_000_003 + idx, KeepLog: 80})
		}
		return jobs
	}
	sink := func(o batchOutcome, jobs []rt.Params) {
		for _, r := range o.results {
			a.add(p, r)
		}
		if len(o.missing) > 0 {
			if o.crashed || o.timedOut {
				what := "crashed"
				if o.timedOut {
					what = "timed out (watchdog)"
				}
				if os.Getenv("VERIF_KEEP_GOING") == "" {
					stop = true // decided by the re-run of the suspect below: a violation or trouble
				}
				a.suspects = append(a.suspects, o.missing[0])
				a.suspectLogs = append(a.suspectLogs, fmt.Sprintf("worker %s at scenario=%s seed=%d:\n%s", what, o.missing[0].Scenario, o.missing[0].Seed, tail(o.log, 2500)))
				if len(o.missing) > 1 {
					requeue = append(requeue, o.missing[1:])
				}
			} else {
				requeue = append(requeue, o.missing) // heap budget: fresh process
			}
		}
		for _, f := range a.owned {
			isKnown := false
			for _, k := range known {
				if k.matches(p.ID, f.v) {
					isKnown = true
				}
			}
			if !isKnown && os.Getenv("VERIF_KEEP_GOING") == "" {
				stop = true
			}
		}
	}
	// generous watchdog: the machine may be shared with other checks
	e.pool(next, func(n int) time.Duration { return time.Duration(600+30*n) * time.Second }, sink)
	runSecs := time.Since(e.t0).Seconds()

	exit := 0
	nViol := 0
	// Worker crashes / watchdog expiries: re-run the suspect alone.
	for i, sp := range a.suspects {
		if i >= 2 {
			break
		}
		_, o := e.runOne(sp)
		if clause, site, detail, ok := stallKind(o); ok && p.owns(clause) {
			v := rt.Violation{Clause: clause, Site: site, Detail: detail}
			if knownLine(known, p.ID, v) != "" {
				printKnown(p.ID, knownLine(known, p.ID, v))
				continue
			}
			path := writeReplay(p, sp.Seed, rt.Result{Params: sp}, v, "not minimised (the run does not complete)")
			fmt.Printf("VIOLATION property=%s replay=%s\n", p.ID, path)
			fmt.Printf("  clause=%s site=%s %s\n", clause, site, v.Detail)
			nViol++
			exit = 1
			continue
		}
		if (o.crashed || o.timedOut) && crashLooksLikeSUT(o.log) && (p.owns("C14.") || p.owns("C07.")) {
			clause := "C14.crash"
			v := rt.Violation{Clause: clause, Site: "process", Detail: "the process running the server code died: " + trimLines(firstFatal(o.log), 12)}
			if knownLine(known, p.ID, v) != "" {
				printKnown(p.ID, knownLine(known, p.ID, v))
				continue
			}
			path := writeReplay(p, sp.Seed, rt.Result{Params: sp}, v, "not minimised (process crash)")
			fmt.Printf("VIOLATION property=%s replay=%s\n", p.ID, path)
			fmt.Printf("  clause=%s %s\n", clause, v.Detail)
			nViol++
			exit = 1
		} else {
			a.trouble = append(a.trouble, a.suspectLogs[i])
		}
	}
	// Violations.
	keys := sortedKeys(a.owned)
	if os.Getenv("VERIF_KEEP_GOING") != "" {
		for _, k := range keys {
			fmt.Printf("vcheck: distinct violation %s (seed %d, %d hits in %d runs): %s\n", k, a.owned[k].res.Params.Seed, a.ownedHits[k], a.runs, trimLines(a.owned[k].v.Detail, 2))
		}
	}
	reported := 0
	for _, k := range keys {
		f := a.owned[k]
		if line := knownLine(known, p.ID, f.v); line != "" {
			printKnown(p.ID, line)
			continue
		}
		nViol++
		if reported >= 3 {
			continue
		}
		reported++
		// confirm by replay in a fresh process
		rp := f.res.Params
		rp.Replay, rp.Plan, rp.Sched, rp.KeepLog = true, f.res.PlanTape, f.res.SchedTape, 4000
		if len(f.v.ReplayOpt) > 0 {
			// an enumerating run points at the single sub-run that failed
			opt := map[string]string{}
			for k, v := range rp.Opt {
				opt[k] = v
			}
			for k, v := range f.v.ReplayOpt {
				opt[k] = v
			}
			rp.Opt = opt
		}
		rr, o := e.runOne(rp)
		if rr == nil || !hasViolation(rr, f.v.Clause, f.v.Site) {
			msg := "worker produced no result"
			if rr != nil {
				msg = fmt.Sprintf("replay gave clauses %v trace %s (original %s)", clauses(rr), rr.TraceHash, f.res.TraceHash)
			}
			a.trouble = append(a.trouble, fmt.Sprintf("violation %s at seed %d did not replay: %s\n%s", f.v.Clause, f.res.Params.Seed, msg, tail(o.log, 2000)))
			nViol--
			continue
		}
		minBudget := 60 * time.Second
		if tier == "thorough" {
			minBudget = 180 * time.Second
		}
		if reported > 1 {
			minBudget = 0 // only the first violation is minimised; the others are confirmed by replay
		}
		best, note := minimise(e, *rr, f.v.Clause, f.v.Site, minBudget)
		v := pickViolation(&best, f.v.Clause, f.v.Site)
		pth := writeReplay(p, f.res.Params.Seed, best, v, note)
		fmt.Printf("VIOLATION property=%s replay=%s\n", p.ID, pth)
		fmt.Printf("  clause=%s site=%s seed=%d scenario=%s\n  %s\n", v.Clause, v.Site, f.res.Params.Seed, f.res.Params.Scenario, trimLines(v.Detail, 6))
		exit = 1
	}
	if a.harnessErr > 0 {
		a.trouble = append(a.trouble, fmt.Sprintf("%d runs ended with a harness error: %s", a.harnessErr, strings.Join(a.harnessMsgs, "\n")))
	}
	if a.runs > 0 && a.inconclusive*5 > a.runs {
		a.trouble = append(a.trouble, fmt.Sprintf("%d of %d runs hit the step cap", a.inconclusive, a.runs))
	}
	if a.runs == 0 {
		a.trouble = append(a.trouble, "no run completed")
	}
	writeEvidence(e, p, tier, a, nViol, runSecs)
	fmt.Printf("vcheck: %s %s: runs=%d distinct_nontrivial=%d steps=%d faults=%d violations=%d known=%d wall=%.0fs\n", p.ID, tier, a.runs, len(a.traces), a.steps, sumMap(a.faults), nViol, countKnown(a, known, p.ID), time.Since(e.t0).Seconds())
	if len(a.otherClauses) > 0 {
		fmt.Printf("vcheck: note: clauses of other properties seen in these runs (reported by their own checks): %v\n", a.otherClauses)
	}
	if exit == 0 && len(a.trouble) > 0 {
		for _, t := range a.trouble {
			fmt.Fprintf(os.Stderr, "vcheck: TROUBLE: %s\n", t)
		}
		return 2
	}
	return exit
}

func sumMap(m map[string]int) int {
	n := 0
	for _, v := range m {
		n += v
	}
	return n
}

func countKnown(a *agg, known []finding, prop string) int {
	n := 0
	for _, f := range a.owned {
		if knownLine(known, prop, f.v) != "" {
			n++
		}
	}
	return n
}

func knownLine(known []finding, prop string, v rt.Violation) string {
	for _, k := range known {
		if k.matches(prop, v) {
			return fmt.Sprintf("clause=%s site=%s — %s", k.clause, k.site, k.text)
		}
	}
	return ""
}

func firstFatal(log string) string {
	i := strings.Index(log, "fatal error:")
	if j := strings.Index(log, "panic:"); i < 0 || (j >= 0 && j < i) {
		i = j
	}
	if i < 0 {
		return tail(log, 1500)
	}
	return log[i:]
}

// hasViolation: the run shows a violation of that clause at that site ("" =
// any site). Replay confirmation and minimisation keep clause AND site: a run
// that only shows another site of the same clause (possibly a recorded
// finding) is not the same violation.
func hasViolation(r *rt.Result, clause, site string) bool {
	for _, v := range r.Violations {
		if v.Clause == clause && (site == "" || v.Site == site) {
			return true
		}
	}
	return false
}

func clauses(r *rt.Result) []string {
	var c []string
	for _, v := range r.Violations {
		c = append(c, v.Clause)
	}
	return c
}

func pickViolation(r *rt.Result, clause, site string) rt.Violation {
	for _, v := range r.Violations {
		if v.Clause == clause && v.Site == site {
			return v
		}
	}
	for _, v := range r.Violations {
		if v.Clause == clause {
			return v
		}
	}
	return rt.Violation{Clause: clause, Site: site}
}

// ---------------------------------------------------------------- replay files

type replayDoc struct {
	Property string         `json:"property"`
	Clause   string         `json:"clause"`
	Site     string         `json:"site"`
	Detail   string         `json:"detail"`
	Seed     uint64         `json:"seed"`
	Note     string         `json:"minimisation"`
	Params   rt.Params      `json:"params"`
	Trace    string         `json:"trace_hash"`
	Steps    int            `json:"steps"`
	PlanLog  []string       `json:"plan"`
	TraceLog []string       `json:"schedule_and_outcomes"`
	Faults   map[string]int `json:"faults_fired,omitempty"`
	HowTo    string         `json:"how_to_replay"`
}

func writeReplay(p *propSpec, seed uint64, r rt.Result, v rt.Violation, note string) string {
	rp := r.Params
	if len(r.PlanTape) > 0 || len(r.SchedTape) > 0 {
		rp.Replay, rp.Plan, rp.Sched = true, r.PlanTape, r.SchedTape
	}
	rp.KeepLog = 4000
	dir := filepath.Join(outDir, "replays")
	_ = os.MkdirAll(dir, 0o755)
	pth := ""
	for n := 0; ; n++ {
		pth = filepath.Join(dir, fmt.Sprintf("%s-%d-%d.json", p.ID, seed, n))
		if _, err := os.Stat(pth); err != nil {
			break
		}
	}
	_ = writeJSON(pth, replayDoc{Property: p.ID, Clause: v.Clause, Site: v.Site, Detail: v.Detail, Seed: seed, Note: note,
		Params: rp, Trace: r.TraceHash, Steps: r.Steps, PlanLog: r.PlanLog, TraceLog: r.TraceLog, Faults: r.Faults,
		HowTo: "cd /verif && ./check --replay " + pth})
	return pth
}

func loadAndRun(e *env, pth string) (*replayDoc, *rt.Result, batchOutcome) {
	b, err := os.ReadFile(pth)
	if err != nil {
		fatal2("%v", err)
	}
	var rf replayDoc
	if err := json.Unmarshal(b, &rf); err != nil {
		fatal2("%s: %v", pth, err)
	}
	r, o := e.runOne(rf.Params)
	return &rf, r, o
}

func replayFile(e *env, pth string) int {
	rf, r, o := loadAndRun(e, pth)
	if r == nil {
		if clause, site, detail, ok := stallKind(o); ok && clause == rf.Clause {
			fmt.Printf("VIOLATION property=%s replay=%s\n  reproduced clause=%s site=%s\n  %s\n", rf.Property, pth, clause, site, detail)
			return 1
		}
		if (o.crashed || o.timedOut) && rf.Clause == "C14.crash" {
			fmt.Printf("VIOLATION property=%s replay=%s\n  reproduced: the process died again\n%s\n", rf.Property, pth, trimLines(firstFatal(o.log), 20))
			return 1
		}
		fmt.Fprintf(os.Stderr, "vcheck: replay produced no result:\n%s\n", o.log)
		return 2
	}
	if hasViolation(r, rf.Clause, rf.Site) {
		same := "identical"
		if rf.Trace != "" && r.TraceHash != rf.Trace {
			same = "DIFFERENT (" + r.TraceHash + " vs recorded " + rf.Trace + ")"
		}
		v := pickViolation(r, rf.Clause, rf.Site)
		fmt.Printf("VIOLATION property=%s replay=%s\n  reproduced clause=%s site=%s; executed schedule %s\n  %s\n", rf.Property, pth, v.Clause, v.Site, same, trimLines(v.Detail, 8))
		for _, l := range r.PlanLog {
			fmt.Println("  plan:", l)
		}
		for _, l := range head(r.TraceLog, 200) {
			fmt.Println("  ", l)
		}
		return 1
	}
	fmt.Printf("vcheck: replay of %s did not reproduce %s on this tree (clauses now: %v)\n", pth, rf.Clause, clauses(r))
	return 0
}

// ---------------------------------------------------------------- evidence

func writeEvidence(e *env, p *propSpec, tier string, a *agg, nViol int, runSecs float64) {
	wall := time.Since(e.t0).Seconds()
	probeWarn := []string{}
	for _, k := range sortedKeys(a.probes) {
		_ = k
	}
	samples := a.samples
	if len(samples) == 0 {
		samples = []any{"no run completed"}
	}
	rph := 0.0
	if runSecs > 0 {
		rph = float64(a.runs) / runSecs * 3600
	}
	cov := map[string]any{
		"evaluations":                 a.runs,
		"distinct_nontrivial":         len(a.traces),
		"rule":                        p.Rule,
		"samples":                     samples,
		"seeds":                       map[string]any{"VERIF_SEED": e.seed, "first_run_seed": a.seedLo, "last_run_seed": a.seedHi},
		"runs_per_scenario":           a.perScen,
		"runs_per_hour":               int64(rph),
		"scheduling_steps":            a.steps,
		"preemptions":                 a.preempts,
		"client_operations":           a.ops,
		"simulated_seconds":           a.simMs / 1000,
		"faults_fired":                a.faults,
		"probes":                      a.probes,
		"grid_cells_hit":              len(a.cells),
		"grid_cells":                  head(sortedKeys(a.cells), 400),
		"distinct_final_states":       len(a.states),
		"inconclusive_runs":           a.inconclusive,
		"ambiguous_label_ties":        a.ambig,
		"other_property_clauses_seen": a.otherClauses,
		"components":                  map[string]any{"real": realAll, "stub": stubAll},
		"instrumentation":             e.instr,
		"exhaustive":                  false,
		"probe_warnings":              probeWarn,
	}
	ev := map[string]any{
		"property_id": p.ID,
		"tier":        tier,
		"seed":        int64(e.seed),
		"level":       p.Level,
		"coverage":    cov,
		"assumptions": append([]string{
			"the simulator owns goroutine interleaving at cache-mutex boundaries and instrumented file-system steps, upload/download byte delivery, backend behaviour and process kills; code between two scheduling points runs atomically with respect to other requests",
			"files live on a real tmpfs; no EIO/ENOSPC/power-loss injection",
			"net/http and grpc-go transports are replaced by direct handler invocation",
		}, p.Assume...),
		"wall_s":     wall,
		"violations": nViol,
	}
	_ = os.MkdirAll(filepath.Join(outDir, "evidence"), 0o755)
	_ = writeJSON(filepath.Join(outDir, "evidence", p.ID+".json"), ev)
}

// ---------------------------------------------------------------- minimiser

func minimise(e *env, start rt.Result, clause, site string, budget time.Duration) (rt.Result, string) {
	deadline := time.Now().Add(budget)
	best := start
	tries, wins := 0, 0
	mk := func(plan, sched []uint32) rt.Params {
		p := best.Params
		p.Replay, p.Plan, p.Sched, p.KeepLog = true, plan, sched, 4000
		return p
	}
	// evaluate candidates in parallel, adopt the first (in order) that still fails
	try := func(cands []rt.Params) bool {
		if len(cands) == 0 || time.Now().After(deadline) {
			return false
		}
		type out struct {
			i int
			r *rt.Result
		}
		ch := make(chan out, len(cands))
		sem := make(chan struct{}, e.workers)
		for i, c := range cands {
			go func(i int, c rt.Params) {
				sem <- struct{}{}
				r, _ := e.runOneT(c, 60*time.Second) // a candidate that wedges counts as "not reproduced"
				<-sem
				ch <- out{i, r}
			}(i, c)
		}
		res := make([]*rt.Result, len(cands))
		for range cands {
			o := <-ch
			res[o.i] = o.r
		}
		tries += len(cands)
		for _, r := range res {
			if r != nil && r.Harness == "" && hasViolation(r, clause, site) {
				// adopt; normalise tapes to what was actually consumed
				best = *r
				wins++
				return true
			}
		}
		return false
	}
	cur := func() ([]uint32, []uint32) { return best.PlanTape, best.SchedTape }
	for round := 0; round < 6 && time.Now().Before(deadline); round++ {
		progress := false
		// 1. schedule: all default
		plan, sched := cur()
		if !allZero(sched) {
			if try([]rt.Params{mk(plan, nil)}) {
				progress = true
			}
		}
		// 2. schedule: zero suffixes / blocks
		for blk := 0; blk < 8 && time.Now().Before(deadline); blk++ {
			plan, sched = cur()
			if allZero(sched) {
				break
			}
			cands := zeroBlocks(sched, 16)
			var ps []rt.Params
			for _, c := range cands {
				ps = append(ps, mk(plan, c))
			}
			if !try(ps) {
				break
			}
			progress = true
		}
		// 3. plan: delete blocks, zero blocks, lower values
		for it := 0; it < 12 && time.Now().Before(deadline); it++ {
			plan, sched = cur()
			var ps []rt.Params
			for _, c := range deleteBlocks(plan, 10) {
				ps = append(ps, mk(c, sched))
			}
			for _, c := range zeroBlocks(plan, 10) {
				ps = append(ps, mk(c, sched))
			}
			for _, c := range lowerValues(plan, 12) {
				ps = append(ps, mk(c, sched))
			}
			if !try(ps) {
				break
			}
			progress = true
		}
		if !progress {
			break
		}
	}
	note := fmt.Sprintf("minimised by tape shrinking: %d candidates tried, %d adopted; plan tape %d -> %d entries (%d non-zero), schedule tape %d -> %d entries (%d non-zero), steps %d -> %d",
		tries, wins, len(start.PlanTape), len(best.PlanTape), nonZero(best.PlanTape), len(start.SchedTape), len(best.SchedTape), nonZero(best.SchedTape), start.Steps, best.Steps)
	return best, note
}

func allZero(t []uint32) bool { return nonZero(t) == 0 }

func nonZero(t []uint32) int {
	n := 0
	for _, v := range t {
		if v != 0 {
			n++
		}
	}
	return n
}

// zeroBlocks proposes variants of t with one block set to zero, coarse first.
func zeroBlocks(t []uint32, max int) [][]uint32 {
	var out [][]uint32
	n := len(t)
	for size := n; size >= 1 && len(out) < max; size /= 2 {
		for off := n - size; off >= 0 && len(out) < max; off -= size {
			changed := false
			c := append([]uint32(nil), t...)
			for i := off; i < off+size; i++ {
				if c[i] != 0 {
					c[i] = 0
					changed = true
				}
			}
			if changed {
				out = append(out, c)
			}
		}
	}
	return out
}

func deleteBlocks(t []uint32, max int) [][]uint32 {
	var out [][]uint32
	n := len(t)
	for size := n / 2; size >= 1 && len(out) < max; size /= 2 {
		for off := n - size; off >= 0 && len(out) < max; off -= size {
			c := append(append([]uint32(nil), t[:off]...), t[off+size:]...)
			out = append(out, c)
		}
	}
	return out
}

func lowerValues(t []uint32, max int) [][]uint32 {
	var out [][]uint32
	idx := []int{}
	for i, v := range t {
		if v != 0 {
			idx = append(idx, i)
		}
	}
	sort.Slice(idx, func(i, j int) bool { return t[idx[i]] > t[idx[j]] })
	for _, i := range idx {
		if len(out) >= max {
			break
		}
		c := append([]uint32(nil), t...)
		if c[i] > 1 {
			c[i] /= 2
		} else {
			c[i] = 0
		}
		out = append(out, c)
	}
	return out
}

// ---------------------------------------------------------------- self tests

// selftest determinism: every seed is executed in three separate processes
// at GOMAXPROCS 1, 4 and 16 and at different batch positions; the hashes of
// schedule + outcomes must be identical.
func selftest(e *env, args []string) int {
	if len(args) == 0 || args[0] != "determinism" {
		usage()
	}
	scens := args[1:]
	if len(scens) == 0 {
		seen := map[string]bool{}
		for _, p := range props {
			for _, s := range p.Scens {
				if !seen[s.Name] {
					seen[s.Name] = true
					scens = append(scens, s.Name)
				}
			}
		}
	}
	nSeeds := getenvInt("VERIF_SELFTEST_SEEDS", 40)
	bad := 0
	for _, sc := range scens {
		var opt map[string]string
		for _, p := range props {
			for _, s := range p.Scens {
				if s.Name == sc && opt == nil {
					opt = s.Opt
				}
			}
		}
		mkJobs := func(rev bool) []rt.Params {
			var j []rt.Params
			for i := 0; i < nSeeds; i++ {
				k := i
				if rev {
					k = nSeeds - 1 - i
				}
				j = append(j, rt.Params{Scenario: sc, Opt: opt, Seed: e.seed*7919 + uint64(k) + 1, KeepLog: 3000})
			}
			return j
		}
		type key struct{ seed uint64 }
		ref := map[uint64]rt.Result{}
		for pass, gmp := range []string{"16", "1", "4"} {
			os.Setenv("GOMAXPROCS", gmp)
			jobs := mkJobs(pass == 1)
			// split over several processes
			per := (len(jobs) + 3) / 4
			for off := 0; off < len(jobs); off += per {
				end := off + per
				if end > len(jobs) {
					end = len(jobs)
				}
				o := e.runBatch(jobs[off:end], 600*time.Second)
				for len(o.missing) > 0 && !o.crashed && !o.timedOut && len(o.results) > 0 {
					// the worker stopped at its heap budget: continue in a fresh process
					o2 := e.runBatch(o.missing, 600*time.Second)
					o.results = append(o.results, o2.results...)
					o.missing, o.crashed, o.timedOut, o.log = o2.missing, o2.crashed, o2.timedOut, o2.log
					if len(o2.results) == 0 {
						break
					}
				}
				if len(o.missing) > 0 {
					fmt.Printf("selftest: worker lost %d jobs (scenario %s):\n%s\n", len(o.missing), sc, tail(o.log, 3000))
					bad++
				}
				for _, r := range o.results {
					if r.Harness != "" {
						fmt.Printf("selftest: harness error scenario=%s seed=%d: %s\n", sc, r.Params.Seed, trimLines(r.Harness, 20))
						bad++
						continue
					}
					if pass == 0 {
						ref[r.Params.Seed] = r
						continue
					}
					q, ok := ref[r.Params.Seed]
					if !ok {
						continue
					}
					if q.TraceHash != r.TraceHash || q.Steps != r.Steps || q.StateHash != r.StateHash || len(q.Violations) != len(r.Violations) {
						bad++
						fmt.Printf("selftest: NONDETERMINISM scenario=%s seed=%d GOMAXPROCS=%s: trace %s/%s steps %d/%d state %s/%s\n", sc, r.Params.Seed, gmp, q.TraceHash, r.TraceHash, q.Steps, r.Steps, q.StateHash, r.StateHash)
						for i := 0; i < len(q.TraceLog) && i < len(r.TraceLog); i++ {
							if q.TraceLog[i] != r.TraceLog[i] {
								fmt.Printf("  first difference at log line %d:\n   A: %s\n   B: %s\n", i, q.TraceLog[i], r.TraceLog[i])
								break
							}
						}
					}
				}
			}
		}
		os.Unsetenv("GOMAXPROCS")
		amb := 0
		for _, r := range ref {
			amb += r.Ambig
		}
		fmt.Printf("selftest: scenario %s: %d seeds x 3 processes (GOMAXPROCS 16/1/4), label ties %d\n", sc, len(ref), amb)
	}
	if bad > 0 {
		fmt.Printf("selftest: %d problems\n", bad)
		return 2
	}
	fmt.Println("selftest: determinism OK")
	return 0
}

// stallKind classifies a run that did not complete (the worker's stall
// watchdog or the driver's timeout fired) from the goroutine dump: a handler
// of the code under test panicked and the run then wedged, or goroutines of
// the code under test are blocked for ever on a cache mutex.
func stallKind(o batchOutcome) (clause, site, detail string, ok bool) {
	if !o.timedOut {
		return
	}
	if i := strings.Index(o.log, "verif: handler panic: "); i >= 0 {
		line := o.log[i+len("verif: handler panic: "):]
		if j := strings.IndexByte(line, '\n'); j >= 0 {
			line = line[:j]
		}
		return "C14.panic", "handler/then-stalled", "handler panicked: " + line + "; afterwards the run made no progress (goroutines blocked on a mutex the dead handler held)", true
	}
	for _, blk := range strings.Split(o.log, "\n\n") {
		if !strings.HasPrefix(blk, "goroutine ") || !strings.Contains(blk, "sync.(*Mutex).Lock") && !strings.Contains(blk, "sync.(*RWMutex).") {
			continue
		}
		lines := strings.Split(blk, "\n")
		for _, l := range lines {
			if strings.Contains(l, "buchgr/bazel-remote/v2/") && !strings.HasPrefix(l, "\t") {
				fn := l
				if j := strings.LastIndexByte(fn, '('); j > 0 {
					fn = fn[:j]
				}
				if j := strings.LastIndexByte(fn, '/'); j >= 0 {
					fn = fn[j+1:]
				}
				return "C07.deadlock", "mutex-wedge", "no progress: a goroutine of the code under test is blocked for ever acquiring a mutex in " + fn, true
			}
		}
	}
	return
}

var knownPrinted = map[string]bool{}

// printKnown prints one KNOWN-FINDING line per listed finding (several sites
// may match one listed pattern).
func printKnown(prop, line string) {
	if knownPrinted[line] {
		return
	}
	knownPrinted[line] = true
	fmt.Printf("KNOWN-FINDING: property=%s %s\n", prop, line)
}
