package main

import (
	"bufio"
	"bytes"
	"encoding/json"
	"fmt"
	"os"
	"os/exec"
	"path/filepath"
	"strings"
	"sync"
	"sync/atomic"
	"syscall"
	"time"

	"verifsim/rt"
)

var batchSeq atomic.Int64

// batchOutcome is what one worker process produced.
type batchOutcome struct {
	results  []rt.Result
	missing  []rt.Params // jobs without a result (worker stopped or died)
	crashed  bool        // worker exited abnormally
	timedOut bool
	log      string // tail of stderr
}

// runBatch runs the jobs in one fresh worker process.
func (e *env) runBatch(jobs []rt.Params, timeout time.Duration) batchOutcome {
	id := batchSeq.Add(1)
	jf := filepath.Join(e.scratch, fmt.Sprintf("job%d.jsonl", id))
	of := filepath.Join(e.scratch, fmt.Sprintf("out%d.jsonl", id))
	rd := filepath.Join(e.rundir, fmt.Sprintf("w%d", id))
	_ = os.MkdirAll(rd, 0o755)
	defer os.RemoveAll(rd)
	defer os.Remove(jf)
	defer os.Remove(of)
	var jb bytes.Buffer
	for _, j := range jobs {
		b, _ := json.Marshal(j)
		jb.Write(b)
		jb.WriteByte('\n')
	}
	if err := os.WriteFile(jf, jb.Bytes(), 0o644); err != nil {
		return batchOutcome{missing: jobs, crashed: true, log: err.Error()}
	}
	cmd := exec.Command(e.worker, "-test.run", "^TestWorker$", "-test.timeout", "0")
	cmd.Env = append(os.Environ(), "VERIF_JOB="+jf, "VERIF_OUT="+of, "VERIF_RUNDIR="+rd, "GOTRACEBACK=all", "GOMAXPROCS="+gomaxprocs())
	var stderr bytes.Buffer
	cmd.Stderr = &stderr
	cmd.Stdout = &stderr
	cmd.SysProcAttr = &syscall.SysProcAttr{Setpgid: true}
	var out batchOutcome
	if err := cmd.Start(); err != nil {
		return batchOutcome{missing: jobs, crashed: true, log: err.Error()}
	}
	done := make(chan error, 1)
	go func() { done <- cmd.Wait() }()
	select {
	case err := <-done:
		if err != nil {
			out.crashed = true
			if ee, ok := err.(*exec.ExitError); ok && ee.ExitCode() == 4 {
				out.crashed, out.timedOut = false, true // the worker's own stall watchdog (goroutine dump in the log)
			}
		}
	case <-time.After(timeout):
		out.timedOut = true
		_ = cmd.Process.Signal(syscall.SIGQUIT) // goroutine dump into stderr
		select {
		case <-done:
		case <-time.After(5 * time.Second):
			_ = syscall.Kill(-cmd.Process.Pid, syscall.SIGKILL)
			<-done
		}
	}
	out.log = tail(stderr.String(), 12000)
	f, err := os.Open(of)
	n := 0
	if err == nil {
		sc := bufio.NewScanner(f)
		sc.Buffer(make([]byte, 1<<20), 256<<20)
		for sc.Scan() {
			var r rt.Result
			if json.Unmarshal(sc.Bytes(), &r) != nil {
				continue
			}
			if r.UnfinishedFrom != nil {
				break
			}
			out.results = append(out.results, r)
			n++
		}
		f.Close()
	}
	if n < len(jobs) {
		out.missing = jobs[n:]
	}
	return out
}

func tail(s string, n int) string {
	if len(s) > n {
		return "...\n" + s[len(s)-n:]
	}
	return s
}

// pool runs batches produced by next() on e.workers processes until next
// returns nil, feeding every outcome to sink (serialised).
func (e *env) pool(next func() []rt.Params, timeout func(n int) time.Duration, sink func(batchOutcome, []rt.Params)) {
	var mu sync.Mutex
	var wg sync.WaitGroup
	for w := 0; w < e.workers; w++ {
		wg.Add(1)
		go func() {
			defer wg.Done()
			for {
				mu.Lock()
				jobs := next()
				mu.Unlock()
				if len(jobs) == 0 {
					return
				}
				o := e.runBatch(jobs, timeout(len(jobs)))
				mu.Lock()
				sink(o, jobs)
				mu.Unlock()
			}
		}()
	}
	wg.Wait()
}

// runOne runs a single job in its own process.
func (e *env) runOne(p rt.Params) (*rt.Result, batchOutcome) {
	return e.runOneT(p, 300*time.Second)
}

func (e *env) runOneT(p rt.Params, timeout time.Duration) (*rt.Result, batchOutcome) {
	o := e.runBatch([]rt.Params{p}, timeout)
	if len(o.results) == 1 {
		return &o.results[0], o
	}
	return nil, o
}

func crashLooksLikeSUT(log string) bool {
	// a Go runtime fatal error or unrecovered panic whose first goroutine has a
	// frame of the code under test
	i := strings.Index(log, "fatal error:")
	if j := strings.Index(log, "panic:"); i < 0 || (j >= 0 && j < i) {
		i = j
	}
	if i < 0 {
		return false
	}
	rest := log[i:]
	if k := strings.Index(rest, "\n\ngoroutine "); k >= 0 {
		// first goroutine block after the message
		blk := rest[k+2:]
		if m := strings.Index(blk, "\n\n"); m >= 0 {
			blk = blk[:m]
		}
		return strings.Contains(blk, "buchgr/bazel-remote/v2/")
	}
	return false
}

// gomaxprocs: one worker process per core is the unit of parallelism; inside a
// worker two Ps are enough (the schedule does not depend on it: selftest).
func gomaxprocs() string {
	if v := os.Getenv("GOMAXPROCS"); v != "" {
		return v
	}
	return "2"
}
