package main

import (
	"os"
	"sort"
	"strings"
)

type scenSpec struct {
	Name   string
	Opt    map[string]string
	Weight int
	Batch  int // runs per worker process (0: default)
}

type propSpec struct {
	ID       string
	Level    string // exploration | fault_enumeration
	Scens    []scenSpec
	Clauses  []string // clause prefixes that count as violations of this property
	QuickS   int      // seconds of run phase, quick tier
	ThorS    int      // seconds of run phase, thorough tier
	Rule     string
	Assume   []string
	Real     []string
	Stub     []string
	MinCells int               // thorough: required number of distinct grid cells (0: none)
	QuickOpt map[string]string // extra scenario options in the quick tier
}

func (p *propSpec) scenNames() string {
	var n []string
	for _, s := range p.Scens {
		n = append(n, s.Name)
	}
	return strings.Join(n, ",")
}

func (p *propSpec) owns(clause string) bool {
	if x := os.Getenv("VERIF_EXTRA_CLAUSES"); x != "" { // exploration aid, never set by registered commands
		for _, c := range strings.Split(x, ",") {
			if strings.HasPrefix(clause, c) {
				return true
			}
		}
	}
	for _, c := range p.Clauses {
		if strings.HasPrefix(clause, c) {
			return true
		}
	}
	return false
}

var realAll = []string{"cache/disk (disk, lru, load, findmissing, metrics decorator)", "cache/disk/casblob", "cache/disk/zstdimpl (go and cgo)", "utils/tempfile", "utils/sha256verifier", "utils/validate", "server HTTP handler", "server gRPC handlers (AC, CAS, ByteStream, Capabilities, Asset)", "cache/httpproxy", "cache/grpcproxy", "utils/backendproxy"}
var stubAll = []string{"net/http server and client transport (handlers invoked directly; simulated RoundTripper)", "grpc-go transport and interceptors (handlers invoked directly; simulated ClientConn)", "TLS, authentication wrappers, package main", "s3proxy/azblobproxy/gcsproxy SDK clients", "Prometheus registration and tickers", "kernel file system (real tmpfs; timestamps set by the simulator)"}

const ruleCommon = "runs are generated from VERIF_SEED (plan tape + schedule tape); a run is non-trivial if the scheduler preempted a runnable goroutine at least once or at least one injected fault fired; distinct = distinct hash of the executed schedule (released label sequence + operation outcomes)"

var props = []*propSpec{
	{ID: "C01", Level: "exploration", Clauses: []string{"C01."},
		Scens:  []scenSpec{{Name: "upload", Weight: 4}, {Name: "read", Weight: 1}, {Name: "conc", Weight: 1}},
		QuickS: 45, ThorS: 900, Rule: ruleCommon},
	{ID: "C03", Level: "exploration", Clauses: []string{"C03."},
		Scens:  []scenSpec{{Name: "conc", Weight: 2}, {Name: "conc", Opt: map[string]string{"ow": "1"}, Weight: 3}, {Name: "upload", Weight: 1}, {Name: "backend", Weight: 1}, {Name: "lru", Weight: 1}, {Name: "hardlimit", Weight: 1}, {Name: "hostile", Weight: 1}},
		QuickS: 40, ThorS: 600, Rule: ruleCommon},
	{ID: "C04", Level: "exploration", Clauses: []string{"C04."},
		Scens:  []scenSpec{{Name: "conc", Weight: 3}, {Name: "conc", Opt: map[string]string{"ow": "1"}, Weight: 2}, {Name: "upload", Weight: 2}, {Name: "backend", Weight: 1}, {Name: "lru", Weight: 1}, {Name: "hostile", Weight: 1}},
		QuickS: 40, ThorS: 600, Rule: ruleCommon},
	{ID: "C07", Level: "exploration", Clauses: []string{"C07.", "C03.", "C04.", "C14.fds", "C02.prefix"},
		Scens:  []scenSpec{{Name: "conc", Weight: 4}, {Name: "conc", Opt: map[string]string{"ow": "1"}, Weight: 1}},
		QuickS: 45, ThorS: 900, Rule: ruleCommon},
}

func init() {
	// "everything it writes conforms to that same format" includes the file
	// naming per key space: the name-grammar clause of C04 is C20's too
	props = append(props, &propSpec{ID: "C20", Level: "exploration", Clauses: []string{"C20.", "C04.name-grammar"},
		Scens:  []scenSpec{{Name: "upload", Weight: 2}, {Name: "restartdir", Weight: 3, Batch: 20}, {Name: "backend", Weight: 2}, {Name: "names", Weight: 1, Batch: 50}, {Name: "conc", Weight: 1}},
		QuickS: 45, ThorS: 600, Rule: ruleCommon + "; for the 'names' scenario a run is a batch of (kind, hash, prefix, mode) tuples evaluated through the S3/Azure key functions (pure-function spot check)"})
	// "holds no ... reserved space or temporary file" after a request ended:
	// the quiescence clauses C03.reserved-zero and C04.stray-file are C14's too
	props = append(props, &propSpec{ID: "C14", Level: "exploration", Clauses: []string{"C14.", "C03.reserved-zero", "C04.stray-file", "C07.deadlock", "C12.no-leak"},
		Scens:  []scenSpec{{Name: "hostile", Weight: 3}, {Name: "upload", Weight: 1}, {Name: "bswrite", Weight: 1}, {Name: "conc", Opt: map[string]string{"tight": "1"}, Weight: 1}, {Name: "backend", Weight: 1}},
		QuickS: 45, ThorS: 900, Rule: ruleCommon})
	props = append(props, &propSpec{ID: "C17", Level: "exploration", Clauses: []string{"C17."},
		Scens:  []scenSpec{{Name: "hardlimit", Weight: 1}},
		QuickS: 40, ThorS: 600, Rule: ruleCommon})
	props = append(props, &propSpec{ID: "C10", Level: "exploration", Clauses: []string{"C10."},
		Scens:  []scenSpec{{Name: "fmb", Weight: 3}, {Name: "backend", Weight: 1}, {Name: "read", Weight: 1}},
		QuickS: 40, ThorS: 600, Rule: ruleCommon})
	props = append(props, &propSpec{ID: "C15", Level: "exploration", Clauses: []string{"C15."},
		Scens:  []scenSpec{{Name: "ns", Weight: 1}, {Name: "ac", Weight: 1}},
		QuickS: 40, ThorS: 600, Rule: ruleCommon})
	props = append(props, &propSpec{ID: "C16", Level: "exploration", Clauses: []string{"C16."},
		Scens:  []scenSpec{{Name: "bswrite", Weight: 1}},
		QuickS: 40, ThorS: 600, Rule: ruleCommon})
	props = append(props, &propSpec{ID: "C06", Level: "exploration", Clauses: []string{"C06."},
		Scens:  []scenSpec{{Name: "ac", Weight: 2}, {Name: "backend", Weight: 1}},
		QuickS: 40, ThorS: 600, Rule: ruleCommon})
	props = append(props, &propSpec{ID: "C11", Level: "exploration", Clauses: []string{"C11."},
		Scens:  []scenSpec{{Name: "ac", Weight: 1}},
		QuickS: 40, ThorS: 600, Rule: ruleCommon})
	// "... and leaks nothing": descriptor / goroutine leaks after backend
	// operations are C12's too; commits of fetched entries that the index
	// refuses need a tight cache with concurrent reservations (conc)
	props = append(props, &propSpec{ID: "C12", Level: "exploration", Clauses: []string{"C12.", "C14.panic", "C14.fds", "C14.goroutines", "C03.", "C04."},
		Scens:  []scenSpec{{Name: "backend", Weight: 3}, {Name: "backend2", Weight: 1, Batch: 15}, {Name: "conc", Opt: map[string]string{"tight": "1", "backend": "1"}, Weight: 1}},
		QuickS: 50, ThorS: 900, Rule: ruleCommon})
	props = append(props, &propSpec{ID: "C09", Level: "exploration", Clauses: []string{"C09.", "C03.", "C04."},
		Scens:  []scenSpec{{Name: "restartdir", Weight: 1, Batch: 20}},
		QuickS: 40, ThorS: 600,
		Rule: "directory populations (layouts, kinds, sizes, duplicates, lost+found), access-time permutations, max_size relative to the total and the storage mode are generated from VERIF_SEED; a run is non-trivial if the directory held at least one file and (an eviction happened at start-up or a legacy layout was migrated or a preemption occurred); distinct = distinct schedule/outcome hash"})
	props = append(props, &propSpec{ID: "C02", Level: "exploration", Clauses: []string{"C02."},
		Scens:  []scenSpec{{Name: "read", Weight: 3}, {Name: "conc", Opt: map[string]string{"prestored": "1"}, Weight: 2}, {Name: "backend", Opt: map[string]string{"faults": "0", "reads": "1"}, Weight: 2}},
		QuickS: 40, ThorS: 600, Rule: ruleCommon})
	props = append(props, &propSpec{ID: "C05", Level: "exploration", Clauses: []string{"C05."},
		Scens:  []scenSpec{{Name: "lru", Weight: 1}},
		QuickS: 40, ThorS: 600, Rule: ruleCommon})
	props = append(props, &propSpec{ID: "C08", Level: "fault_enumeration", Clauses: []string{"C08.", "C07.deadlock", "C14.panic"},
		Scens:  []scenSpec{{Name: "crash", Opt: map[string]string{"enum": "1"}, Weight: 3, Batch: 2}, {Name: "crash", Weight: 1, Batch: 30}},
		QuickS: 50, ThorS: 900,
		Rule: "plans (pre-population + 1-2 victim tasks of 1-2 uploads/overwrites) are generated from VERIF_SEED; for each enumerated plan the victim phase is first run without a kill to count its N scheduling steps and then once per step i in 1..N with the process killed before step i (evaluations counts runs; coverage.crash_points the sub-runs); a run is non-trivial if a kill landed while an upload was in flight or a preemption happened; distinct = distinct schedule/outcome hash"})
	props = append(props, &propSpec{ID: "C18", Level: "exploration", Clauses: []string{"C18.", "C10.proxy-limit"},
		Scens:  []scenSpec{{Name: "upload", Opt: map[string]string{"limits": "1"}, Weight: 3}, {Name: "backend", Weight: 2}, {Name: "fmb", Weight: 1}, {Name: "backend2", Weight: 1, Batch: 15}},
		QuickS: 40, ThorS: 600, Rule: ruleCommon})
}

func findProp(id string) *propSpec {
	for _, p := range props {
		if p.ID == id {
			return p
		}
	}
	return nil
}

func sortedKeys[V any](m map[string]V) []string {
	k := make([]string, 0, len(m))
	for x := range m {
		k = append(k, x)
	}
	sort.Strings(k)
	return k
}
