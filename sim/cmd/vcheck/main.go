// vcheck is the driver of the deterministic-simulation checks: it instruments
// /repo's working tree (overlay, nothing is written there), builds the worker,
// fans seeded runs out over the cores, collects results, confirms and
// minimises violations, writes evidence and sets the exit code:
//
//	0  property held on everything explored
//	1  VIOLATION property=<id> replay=<path>
//	2  the machinery itself is in trouble (build, watchdog, non-replaying failure)
package main

import (
	"encoding/json"
	"fmt"
	"os"
	"os/exec"
	"path/filepath"
	"strconv"
	"strings"
	"time"

	"verifsim/instr"
)

var (
	verifDir = "/verif"
	outDir   = "/verif" // replays/ and evidence/ live here; VERIF_OUTDIR redirects them (runs against other trees)
	repoDir  = "/repo"
	goBin    = "go1.26.8"
)

type env struct {
	scratch string // build + run scratch (removed on exit)
	rundir  string // tmpfs dir for cache directories
	worker  string // path of the worker binary
	modfile string
	seed    uint64
	workers int
	instr   string
	t0      time.Time
}

func fatal2(format string, a ...any) {
	fmt.Fprintf(os.Stderr, "vcheck: "+format+"\n", a...)
	os.Exit(2)
}

func getenvInt(k string, def int) int {
	if v := os.Getenv(k); v != "" {
		if n, err := strconv.Atoi(v); err == nil {
			return n
		}
	}
	return def
}

func setup() *env {
	e := &env{t0: time.Now()}
	if v := os.Getenv("VERIF_DIR"); v != "" {
		verifDir = v
	}
	outDir = verifDir
	if v := os.Getenv("VERIF_REPO"); v != "" {
		repoDir = v
	}
	if v := os.Getenv("VERIF_OUTDIR"); v != "" {
		outDir = v
	}
	base := os.Getenv("VERIF_SCRATCH")
	if base == "" {
		base = "/var/tmp"
	}
	e.scratch = filepath.Join(base, fmt.Sprintf("verif.%d", os.Getpid()))
	if err := os.MkdirAll(e.scratch, 0o755); err != nil {
		fatal2("scratch: %v", err)
	}
	shm := "/dev/shm"
	if st, err := os.Stat(shm); err != nil || !st.IsDir() {
		shm = e.scratch
	}
	e.rundir = filepath.Join(shm, fmt.Sprintf("verif.%d", os.Getpid()))
	_ = os.MkdirAll(e.rundir, 0o755)
	seed := os.Getenv("VERIF_SEED")
	e.seed = 1
	if seed != "" {
		if n, err := strconv.ParseUint(seed, 10, 64); err == nil {
			e.seed = n
		} else if n, err := strconv.ParseInt(seed, 10, 64); err == nil {
			e.seed = uint64(n)
		}
	}
	e.workers = getenvInt("VERIF_WORKERS", 16)
	return e
}

func (e *env) cleanup() {
	_ = os.RemoveAll(e.scratch)
	_ = os.RemoveAll(e.rundir)
}

func goEnv() []string {
	env := os.Environ()
	env = append(env, "GOFLAGS=-mod=mod", "GOPROXY=off", "GOSUMDB=off", "GOTOOLCHAIN=local", "CGO_ENABLED=1")
	return env
}

// build instruments the current working tree of /repo and compiles the worker.
func (e *env) build() {
	gen := exec.Command(filepath.Join(verifDir, "sim/genmod.sh"), repoDir, e.scratch)
	if out, err := gen.CombinedOutput(); err != nil {
		fatal2("genmod: %v\n%s", err, out)
	}
	e.modfile = filepath.Join(e.scratch, "go.mod")
	ov, st, err := instr.Generate(repoDir, filepath.Join(verifDir, "sim/shims"), filepath.Join(e.scratch, "ov"))
	if err != nil {
		fatal2("instrumentation of %s failed: %v", repoDir, err)
	}
	e.instr = st.Summary()
	e.worker = filepath.Join(e.scratch, "worker.test")
	cmd := exec.Command(goBin, "test", "-c", "-vet=off", "-modfile="+e.modfile, "-overlay", ov, "-o", e.worker, "./worker")
	cmd.Dir = filepath.Join(verifDir, "sim")
	cmd.Env = goEnv()
	out, err := cmd.CombinedOutput()
	if err != nil {
		fatal2("building the worker from %s failed (build trouble, not a violation):\n%s", repoDir, out)
	}
}

func usage() {
	fmt.Fprintln(os.Stderr, `usage: vcheck <property> quick|thorough
       vcheck --replay <file>
       vcheck selftest determinism [scenario ...]
       vcheck list`)
	os.Exit(2)
}

func main() {
	if len(os.Args) < 2 {
		usage()
	}
	switch os.Args[1] {
	case "list":
		for _, p := range props {
			fmt.Println(p.ID, p.Level, p.scenNames())
		}
		return
	case "--replay":
		if len(os.Args) < 3 {
			usage()
		}
		e := setup()
		e.build()
		code := replayFile(e, os.Args[2])
		e.cleanup()
		os.Exit(code)
	case "selftest":
		e := setup()
		e.build()
		code := selftest(e, os.Args[2:])
		e.cleanup()
		os.Exit(code)
	case "build-only":
		e := setup()
		e.build()
		fmt.Println("built", e.worker, e.instr)
		e.cleanup()
		return
	}
	if len(os.Args) < 3 {
		usage()
	}
	p := findProp(os.Args[1])
	if p == nil {
		fatal2("unknown property %q", os.Args[1])
	}
	tier := os.Args[2]
	if t := os.Getenv("VERIF_TIER"); t != "" && len(os.Args) < 3 {
		tier = t
	}
	if tier != "quick" && tier != "thorough" {
		usage()
	}
	e := setup()
	e.build()
	code := runCheck(e, p, tier)
	e.cleanup()
	os.Exit(code)
}

func writeJSON(path string, v any) error {
	b, err := json.MarshalIndent(v, "", " ")
	if err != nil {
		return err
	}
	_ = os.MkdirAll(filepath.Dir(path), 0o755)
	return os.WriteFile(path, append(b, '\n'), 0o644)
}

func trimLines(s string, n int) string {
	l := strings.Split(s, "\n")
	if len(l) > n {
		l = l[:n]
	}
	return strings.Join(l, "\n")
}
