#!/bin/sh
# mut.sh <prop> <budget_s> <file> <sed-expr>...  : apply a sed mutation to a scratch worktree of /repo HEAD and run a check against it (development aid for sensitivity tests)
P=$1; B=$2; F=$3; shift 3
M=/tmp/mutwt
git -C /repo worktree remove --force $M >/dev/null 2>&1
git -C /repo worktree add -q --detach $M HEAD || exit 3
for e in "$@"; do sed -i "$e" $M/$F; done
(cd $M && git diff --stat | tail -1)
if git -C $M diff --quiet; then echo "MUTATION DID NOT APPLY"; fi
(cd $M && GOFLAGS=-mod=mod go build ./... ) || { echo "mutant does not build"; git -C /repo worktree remove --force $M; exit 3; }
cd /verif && VERIF_REPO=$M VERIF_BUDGET_S=$B ./check $P quick 2>&1 | grep -v "^vcheck: prop" | cut -c1-300
git -C /repo worktree remove --force $M
