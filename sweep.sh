#!/bin/bash
# sweep.sh <tier> <seed>...: run every claimed check once per VERIF_SEED value
# (false-alarm hunt on the unchanged tree). Replays/evidence go to a scratch
# directory; one line per check on stdout.
tier=$1; shift
cd /verif
for seed in "$@"; do
  for p in $(python3 -c "import json;print(' '.join(c['property_id'] for c in json.load(open('/verif/MANIFEST.json'))['checks']))"); do
    out=/tmp/vout.sweep.$seed
    VERIF_OUTDIR=$out VERIF_SEED=$seed ./check $p $tier > /tmp/sweep.$p.$seed.log 2>&1; rc=$?
    echo "seed=$seed $p exit=$rc $(grep -c '^VIOLATION' /tmp/sweep.$p.$seed.log) violations; $(tail -2 /tmp/sweep.$p.$seed.log | grep 'runs=' | sed 's/.*quick: //;s/.*thorough: //')"
  done
done
