#!/usr/bin/env python3
"""Writes MANIFEST.json from the table below (kept next to the checks so that
the claimed set and the not_applicable list never drift apart)."""
import json, subprocess

CLAIMED = {
 "C01": ("exploration", "4.C01", "Seeded simulated runs of the real upload handlers (16 write-path variants x 11 fault kinds x storage mode x zstd implementation; contents random, zero, text and a periodic family whose members complete each other from stale buffers; damaged uploads right after intact siblings; concurrent uploads of the same digest), bytes delivered in scheduler-chosen pieces, outcome judged against the declared digest with three independent presence observers and a read-back; evidence counts the grid cells actually hit. Sampling, not proof."),
 "C02": ("exploration", "4.C02", "Blobs stored by the real upload handlers are read back through every read path (HTTP GET +-zstd, BatchReadBlobs, ByteStream.Read at boundary offsets/limits, GetTree, inlined ActionResult fields, Get/GetZstd with size known and unknown), optionally after a clean restart under the other storage mode / zstd implementation, with consumers that stop early; zstd output is decoded by two independent decoders."),
 "C03": ("exploration", "4.C03", "Accounting identities evaluated at every scheduling point of concurrent simulated runs (nobody holds the cache mutex there) and tied to the real directory at quiescence; includes an overwrite-focused mix (values of different block counts on one key, backend fetches, parked uploads holding reservations, caches of 2-5 blocks)."),
 "C04": ("exploration", "4.C04", "Directory = index bijection, sizes, completeness (independent cas.v2 reader) at quiescence after runs whose uploads fail at drawn stages (corrupt, truncated, aborted mid-stream, commit refused); in addition 'the file an index entry points at exists' at every scheduling point."),
 "C05": ("exploration", "4.C05", "Sequential histories of puts, overwrites, lookups and backend fetches on small caches (occupied space measured from the files, not from the index) judged against a specification model of recency (groups with unspecified internal order): no eviction without pressure, evictions downward-closed in recency, no more than the minimal oldest prefix, present after accepted put, oversize rejected without eviction, replaced version kept until commit."),
 "C06": ("exploration", "4.C06", "Generated ActionResults (0-25 output files, nested Trees, stdout/stderr digests, empty-blob digests) whose referenced blobs are independently present, absent or stored with another size; hit <=> all present on gRPC GetActionResult and HTTP GET/HEAD, absence => NotFound/404, a hit refreshes the recency of every referenced blob."),
 "C07": ("exploration", "4.C07", "2-5 simulated clients on shared keys, every interleaving decision at lock boundaries, file-system steps and (rule R8) at the eviction-queue hand-over inside the mutex-held region taken by the seeded scheduler; operations include SpliceBlob over shared blobs; reads judged for wholeness, per-key histories checked with porcupine against a weak-register model, accounting/directory invariants at every step and at quiescence, deadlock = nothing runnable with a request open."),
 "C08": ("fault_enumeration", "4.C08", "For generated plans (pre-population + victim uploads/overwrites/re-uploads/wrong-bytes uploads/backend fetches whose bodies pause at drawn offsets and at chunk ends) the victim phase is run once to count its N scheduling steps and then once per step with the process killed there (all goroutines of the instance parked for ever), restart on the directory as is (same/other storage mode, same/smaller max_size), every key read on every path with size known and unknown, interrupted uploads repeated. Kill = process kill: completed writes are visible; no power-loss model."),
 "C09": ("exploration", "4.C09", "Directories produced by an independent writer (current/legacy flat/legacy two-level layouts of ac/ cas/ raw/, .v1 and cas.v2 mixed, duplicates, lost+found, .DS_Store) with simulator-owned access times; start-up with max_size above/at/below the total or below the largest file; survivors judged against an oldest-first replay model, later evictions against recency, every survivor read back byte-exactly."),
 "C10": ("exploration", "4.C10", "FindMissingBlobs request lists of length 0..300 (around the internal batch of 20), duplicates, size-mismatched and empty digests (also the empty blob's hash with a non-zero size), all partitions into local / backend-only / absent / oversize-in-backend, without a backend, with a harness proxy and with the real httpproxy; the scheduler permutes the completion order of the backend lookups (pool workers are labelled by work item; taking an item, wg.Done and the fail-fast callback are scheduling points) and a second client uploads other keys meanwhile. Answer must be the request filtered to the absent digests, order and duplicates preserved."),
 "C11": ("exploration", "4.C11", "Valid ActionResults and one-invalid-field variants (sampled kinds, not exhaustive) uploaded via gRPC and HTTP (proto/JSON/zstd); rejected uploads must leave the key unchanged, hits are compared with the upload modulo the documented changes (worker, inlining, de-inlined bytes in the CAS), JSON and proto views must agree, whatever is stored must parse and validate."),
 "C12": ("exploration", "4.C12", "Front end with the real httpproxy over a simulated transport/object store (b1), the real grpcproxy over a simulated ClientConn whose other end is a second real instance (b2), or a harness cache.Proxy (b0); every operation may carry one backend fault (error, 404 with/without body, 5xx, disconnect or clean short stream at header/table/chunk byte offsets, missing/wrong size metadata, oversize, lost response, backend down); judged: read-through, write-through (decoded by the independent cas.v2 reader / read back from the peer instance), no wrong hit, no poisoned local entry, no leaked response body/fd/goroutine/reservation. Fault stages are drawn per operation, not enumerated exhaustively per plan."),
 "C14": ("exploration", "4.C14", "Generated hostile requests (malformed resource names, digests, sizes, offsets, nil sub-messages, message scripts that end early / send data after finish / keep sending undecodable zstd, client aborts, abandoned reads) and ill-formed stored blobs interpreted as Directory/Tree/ActionResult; after every request: no panic, error status for malformed input, handler returned (otherwise the scheduler reaches 'nothing runnable'), no goroutine, descriptor, reservation or stray file left (also after commits refused under concurrent reservations and after backend faults); a run that stops making progress is classified from its goroutine dump. Generation inside a simulator, not coverage-guided fuzzing."),
 "C15": ("exploration", "4.C15", "The same hash used as key in cas/, ac/ and raw/ (validation toggled per run) with all orders of writes, overwrites, failed stores and evictions against three independent model maps; instance-name mangling on/off over HTTP path prefix and gRPC instance_name with nested, ac/cas/blobs-containing and unicode instance names."),
 "C16": ("exploration", "4.C16", "ByteStream.Write message scripts: all chunkings (one-byte, empty messages, finish_write on last / extra / absent), identity and zstd, blob present or absent beforehand, instance prefixes and trailing metadata, protocol violations (non-zero first offset, name change, too many/few bytes, unparsable name); the scheduler owns every hand-over between receive goroutine, Put goroutine and handler (channel sends, pipe closes, the result select); QueryWriteStatus before and after."),
 "C17": ("exploration", "4.C17", "One client with the background remover starved for scheduler-chosen stretches, hard limits max_size+{0..max/2}, all write paths and overwrites of existing keys; admission judged exactly against accounted + independently measured deletion backlog (bytes of files no longer indexed) + size; refusals must be 507/RESOURCE_EXHAUSTED, change nothing and succeed on retry after the remover caught up; reads keep being served; without the option no such refusal."),
 "C20": ("exploration", "4.C20", "(a) every cas.v2 file any simulated run leaves at quiescence is parsed by an independent reader of the published format (two zstd decoders); (b) directories written by the independent writer with chunk sizes 4 KiB..4 MiB, several encoder levels, both encoders, identity-compressed headers and arbitrary alphanumeric suffixes are read back on every path and offset; (c) names recorded at the simulated backend and produced by the S3/Azure key functions (pure-function spot check) equal the harness's restatement and are injective; the real azblobproxy runs on an in-memory transport and the blob names its Get/Contains/UploadFile ask for are compared with what release 2.x uses, for clean and unclean prefixes."),
 "C18": ("exploration", "4.C18", "Uploads of limit-1/limit/limit+1/far-above sizes through every write path under per-run random max_blob_size; refusals must be client errors that store nothing, the limit itself is accepted."),
}

NOT_YET = {}

NA = {
 "C13": "authentication matrix: a finite table of pure outcomes (no schedule, clock, fault or history); the HTTP half is wired in package main and only reachable over real sockets, which a deterministic simulator cannot own (DESIGN.md section 1)",
 "C19": "configuration front ends are pure functions from (args, env, YAML) to Config|error: no concurrency, time, I/O fault or multi-party behaviour for a simulator to control (DESIGN.md section 1)",
}

ALL = ["C%02d" % i for i in range(1, 21)]

def main():
    checks = []
    for pid in ALL:
        if pid not in CLAIMED:
            continue
        level, ref, text = CLAIMED[pid]
        checks.append({
            "property_id": pid,
            "quick_cmd": "./check %s quick" % pid,
            "thorough_cmd": "./check %s thorough" % pid,
            "evidence_file": "/verif/evidence/%s.json" % pid,
            "replay_cmd_template": "./check --replay {path}",
            "engine": "vcheck",
            "level_claimed": {"category": level, "text": text, "design_ref": "DESIGN.md " + ref},
            "level_note": "Trusted base: the simulator itself (scheduler, seams, reference models, independent cas.v2 reader), Go's testing/synctest, real tmpfs. Handlers are invoked directly (no net/http or grpc-go transport); no disk-error or power-loss injection; a clean batch is evidence, not proof.",
            "technique": "deterministic simulation with fault injection: seeded scheduler over instrumented lock/file-system yield points + fault-injecting I/O seams, oracle = reference model / invariants, seeded search with tape-shrinking and exact replay",
        })
    na = []
    for pid in ALL:
        if pid in CLAIMED:
            continue
        if pid in NA:
            na.append({"property_id": pid, "reason": NA[pid]})
        else:
            na.append({"property_id": pid, "reason": NOT_YET.get(pid, "not claimed at this commit: the simulation scenario for this property is not built yet (see DESIGN.md section 8 for the build order)")})
    m = {
        "version": 1,
        "setup_cmd": "./setup.sh",
        "hooks": {
            "guard": "none - build-time overlay (go build -overlay); /repo carries no hook code",
            "enable": "./check instruments /repo's working tree into a scratch directory with sim/instr (go/ast) and builds its worker with 'go1.26.8 test -c -overlay'; nothing is written to /repo",
            "baseline_off_cmd": "/verif/baseline.sh",
            "source_commits": [],
            "add_only": True,
        },
        "engines": [{
            "name": "vcheck",
            "path": "/verif/sim",
            "serves_properties": sorted(CLAIMED),
            "kind_free_text": "deterministic simulator for Go: go/ast instrumenter (yield points at cache-mutex boundaries and file-system steps), seeded scheduler on testing/synctest quiescence, fault-injecting reader/writer/stream/transport seams, reference models, independent cas.v2 codec, porcupine, tape-based replay and minimisation",
        }],
        "checks": checks,
        "not_applicable": na,
        "notes": "Exit codes: 0 held, 1 VIOLATION (replay file under /verif/replays), 2 machinery trouble (build, watchdog, non-replaying failure). Known findings: /verif/KNOWN_FINDINGS.txt. VERIF_SEED selects the seed; VERIF_BUDGET_S overrides the run-phase budget.",
    }
    json.dump(m, open("/verif/MANIFEST.json", "w"), indent=1)
    print("MANIFEST.json: %d checks, %d not_applicable" % (len(checks), len(na)))

main()
