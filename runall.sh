#!/bin/sh
# runall.sh [tier] [budget_s]: every registered check once, from /verif against
# /repo (this is what writes /verif/evidence/*.json). Without budget_s the
# tier's own budgets apply.
T=${1:-quick}; B=$2
cd /verif
for p in $(jq -r '.checks[].property_id' MANIFEST.json); do
  if [ -n "$B" ]; then VERIF_BUDGET_S=$B ./check $p $T > /tmp/runall.$p.log 2>&1; else ./check $p $T > /tmp/runall.$p.log 2>&1; fi; rc=$?
  echo "$p rc=$rc $(grep -c '^VIOLATION' /tmp/runall.$p.log) violations, $(grep -c '^KNOWN' /tmp/runall.$p.log) known: $(tail -1 /tmp/runall.$p.log | cut -c1-150)"
done
