#!/bin/sh
# runall.sh [budget_s] [tier]: every registered check once (development aid)
B=${1:-20}; T=${2:-quick}
cd /verif
for p in $(jq -r '.checks[].property_id' MANIFEST.json); do
  VERIF_BUDGET_S=$B ./check $p $T > /tmp/runall.$p.log 2>&1; rc=$?
  echo "$p rc=$rc $(grep -c '^VIOLATION' /tmp/runall.$p.log) violations, $(grep -c '^KNOWN' /tmp/runall.$p.log) known: $(tail -1 /tmp/runall.$p.log | cut -c1-150)"
done
